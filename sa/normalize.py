"""NORM - model normalisation: static helper functions that no rule knows by name are transparent.

A maintainer may extract a block into a static helper (or the reverse) without changing behaviour.  Rules are
written against named anchor functions; a helper they have never heard of must not hide the statements it now
contains, and must not appear as a new "writer" of some field.  Before any rule runs, every call of such a
helper is replaced by the helper's body:

  * candidates: functions with internal linkage (static, defined in a .c file) whose name neither occurs as a token
    anywhere in the rule sources nor is listed in known_helpers.txt (the static helpers of the tree the rules were
    validated on - those are the reference instances), that are not recursive, whose address is not taken, that have no static locals, and whose returns
    can be brought into structured form (an `if (...) { ...; return; }` followed by more statements becomes
    if/else; returns inside loops disqualify the helper);
  * call contexts handled: a call statement, `(void)f(...)`, `T v = f(...)`, `x = f(...)`, `return f(...)`, and
    `if (f(...))`-style conditions where the call is evaluated first; other contexts leave the call in place
    (the helper then stays in the model);
  * parameters become single-definition locals initialised with the arguments, so value canonicalisation sees
    through them; local declarations get fresh identities;
  * a helper all of whose calls were replaced is removed from the model.

Switch statements without fall-through and with a side-effect-free controlling expression are lowered to
if / else-if chains first, so that engines need one conditional construct only.

The transformation is purely syntactic and semantics-preserving for the C fragment it accepts; everything else is
left untouched.  It runs on every model load (it is part of "obtaining the resolved program").
"""
import copy
import os
import re

from .astutil import kids, strip, walk, callee_ref

_KNOWN = None


def known_tokens():
    """All identifier-like tokens in the rule and engine sources."""
    global _KNOWN
    if _KNOWN is None:
        here = os.path.dirname(os.path.abspath(__file__))
        toks = set()
        for root, _, files in os.walk(here):
            for fn in files:
                if fn.endswith(".py") and fn != "normalize.py":
                    with open(os.path.join(root, fn)) as f:
                        toks |= set(re.findall(r"[A-Za-z_][A-Za-z0-9_]{2,}", f.read()))
        try:
            with open(os.path.join(here, "known_helpers.txt")) as f:
                toks |= {l.strip() for l in f if l.strip() and not l.startswith("#")}
        except OSError:
            pass
        _KNOWN = toks
    return _KNOWN


class _Ids:
    n = 0

    @classmethod
    def fresh(cls, old):
        cls.n += 1
        return "inl%d:%s" % (cls.n, old)


def _has_return_in_loop(body):
    def rec(n, inloop):
        k = n["kind"]
        if k == "ReturnStmt" and inloop:
            return True
        if k in ("ForStmt", "WhileStmt", "DoStmt"):
            # the NDEBUG assert form do { (void)sizeof(x); } while (0) has no return
            return any(rec(c, True) for c in kids(n))
        if k == "SwitchStmt":
            return any(rec(c, True) for c in kids(n))       # returns inside a switch are not restructured
        return any(rec(c, inloop) for c in kids(n))
    return rec(body, False)


def _ends_with_return(stmt):
    if stmt["kind"] == "ReturnStmt":
        return True
    if stmt["kind"] == "CompoundStmt" and kids(stmt):
        return _ends_with_return(kids(stmt)[-1])
    if stmt["kind"] == "IfStmt" and len(kids(stmt)) > 2:
        return _ends_with_return(kids(stmt)[1]) and _ends_with_return(kids(stmt)[2])
    return False


def _contains_return(n):
    return any(x["kind"] == "ReturnStmt" for x in walk(n))


def _mk(kind, inner=None, **kw):
    d = {"kind": kind, "inner": inner or []}
    d.update(kw)
    return d


def _structure(stmts, like):
    """Rewrite a statement list so that no statement follows a statement that may return: if (c) {..return;} rest
    -> if (c) {..return;} else { rest }.  Returns the new list or None if impossible."""
    out = []
    for i, s in enumerate(stmts):
        rest = stmts[i + 1:]
        if s["kind"] == "IfStmt" and _contains_return(s) and rest:
            ch = kids(s)
            then = ch[1]
            els = ch[2] if len(ch) > 2 else None
            if _ends_with_return(then) and (els is None or not _contains_return(els)):
                tail = _structure(([els] if els is not None else []) + rest, like)
                if tail is None:
                    return None
                new_then = _restructure_block(then, like)
                if new_then is None:
                    return None
                node = dict(s)
                node["inner"] = [ch[0], new_then, _mk("CompoundStmt", tail, file=like.get("file"), line=like.get("line"))]
                out.append(node)
                return out
            if els is not None and _ends_with_return(els) and not _contains_return(then):
                # if (c) { A } else { ...; return; }  rest   ->   if (c) { A; rest } else { ...; return; }
                tail = _structure([then] + rest, like)
                new_els = _restructure_block(els, like)
                if tail is None or new_els is None:
                    return None
                node = dict(s)
                node["inner"] = [ch[0], _mk("CompoundStmt", tail, file=like.get("file"), line=like.get("line")), new_els]
                out.append(node)
                return out
            return None
        if s["kind"] == "CompoundStmt" and _contains_return(s) and rest:
            return None
        if s["kind"] in ("IfStmt", "CompoundStmt") and _contains_return(s):
            ns = _restructure_block(s, like) if s["kind"] == "CompoundStmt" else _restructure_if(s, like)
            if ns is None:
                return None
            out.append(ns)
            continue
        if s["kind"] == "ReturnStmt" and rest:
            out.append(s)
            return out          # dead code after return is dropped
        out.append(s)
    return out


def _restructure_block(b, like):
    if b["kind"] != "CompoundStmt":
        if b["kind"] == "IfStmt":
            return _restructure_if(b, like)
        return b
    st = _structure(kids(b), like)
    if st is None:
        return None
    nb = dict(b)
    nb["inner"] = st
    return nb


def _restructure_if(s, like):
    ch = kids(s)
    parts = [ch[0]]
    for br in ch[1:]:
        nb = _restructure_block(br, like)
        if nb is None:
            return None
        parts.append(nb)
    ns = dict(s)
    ns["inner"] = parts
    return ns


def _replace_returns(n, result_ref, like):
    """In a structured body replace `return e;` by `result = e;` (or drop a void return)."""
    if n["kind"] == "ReturnStmt":
        if kids(n) and result_ref is not None:
            return _mk("BinaryOperator", [copy.deepcopy(result_ref), kids(n)[0]], opcode="=", type=result_ref.get("type"),
                       file=n.get("file"), line=n.get("line"), col=n.get("col"))
        if kids(n):
            return kids(n)[0]          # value unused: keep the expression for its effects
        return _mk("NullStmt", file=n.get("file"), line=n.get("line"))
    if n["kind"] in ("CompoundStmt", "IfStmt"):
        nn = dict(n)
        nn["inner"] = [(_replace_returns(c, result_ref, like) if i > 0 or n["kind"] == "CompoundStmt" else c)
                       for i, c in enumerate(kids(n))]
        return nn
    return n


def _rename(body, idmap):
    """Deep copy with declaration identities (and references to them) renamed."""
    b = copy.deepcopy(body)
    for x in walk(b):
        if x["kind"] in ("VarDecl",) and x.get("id") is not None and x.get("storageClass") != "static":
            new = _Ids.fresh(x["id"])
            idmap[x["id"]] = new
            x["id"] = new
    for x in walk(b):
        if x["kind"] == "DeclRefExpr" and x.get("ref", {}).get("id") in idmap:
            x["ref"] = dict(x["ref"])
            x["ref"]["id"] = idmap[x["ref"]["id"]]
            if x["ref"].get("kind") == "ParmVarDecl":
                x["ref"]["kind"] = "VarDecl"
    return b


def _instantiate(g, call, want_result):
    """(statements, result DeclRefExpr or None) for one call of helper g."""
    idmap = {}
    decls = []
    args = kids(call)[1:]
    if len(args) != len(g.params):
        return None
    for p, a in zip(g.params, args):
        nid = _Ids.fresh(p["id"])
        idmap[p["id"]] = nid
        vd = _mk("VarDecl", [a], name=p.get("name"), id=nid, type=p.get("type"), file=call.get("file"), line=call.get("line"),
                 col=call.get("col"), init="c")
        decls.append(_mk("DeclStmt", [vd], file=call.get("file"), line=call.get("line")))
    result_ref = None
    if want_result:
        rt = (g.type or "").split("(")[0].strip()
        rid = _Ids.fresh("ret:" + g.name)
        rd = _mk("VarDecl", [], name="%s_result" % g.name, id=rid, type=rt, file=call.get("file"), line=call.get("line"))
        decls.append(_mk("DeclStmt", [rd], file=call.get("file"), line=call.get("line")))
        result_ref = _mk("DeclRefExpr", [], ref={"id": rid, "kind": "VarDecl", "name": "%s_result" % g.name, "type": rt},
                         type=rt, file=call.get("file"), line=call.get("line"), col=call.get("col"))
    body = _rename(g.body, idmap)
    st = _structure(kids(body), body)
    if st is None:
        return None
    body["inner"] = st
    body = _replace_returns(body, result_ref, body)
    return decls + kids(body), result_ref


def _first_evaluated_call(expr):
    """The CallExpr that is evaluated before anything else with side effects in `expr`, if it is syntactically the
    left-most leaf chain: !f(), f() == c, f() && x, (cast)f()."""
    n = expr
    while True:
        if n["kind"] in ("ParenExpr", "ImplicitCastExpr", "CStyleCastExpr"):
            n = kids(n)[-1]
            continue
        if n["kind"] == "UnaryOperator" and n.get("opcode") in ("!", "-", "~"):
            n = kids(n)[0]
            continue
        if n["kind"] == "BinaryOperator" and n.get("opcode") not in ("=", ","):
            n = kids(n)[0]
            continue
        break
    return n if n["kind"] == "CallExpr" else None


def _replace_node(root, old, new):
    for x in walk(root):
        ch = x.get("inner")
        if ch:
            for i, c in enumerate(ch):
                if c is old:
                    ch[i] = new
                    return True
    return False


def normalize(model):
    """Inline unknown static helpers in place.  Returns a list of notes (what was inlined / left)."""
    known = known_tokens()
    notes = []
    _ENUMERATORS.clear()
    _ENUMERATORS.update(model.enumerators)
    ngo = forward_gotos_to_blocks(model)
    if ngo:
        notes.append("%d common-exit goto(s) rewritten as if / else" % ngo)
    ntd, lowered_tables = lower_table_dispatch(model)
    if ntd:
        notes.append("%d call(s) through a constant function table lowered to if / else-if chains" % ntd)
    nsw = lower_switches(model)
    if nsw:
        notes.append("%d switch statement(s) lowered to if / else-if chains" % nsw)
    enumerators_in_order_tests(model)
    address_locals_to_lvalues(model)
    nfw = for_refetch_to_while(model)
    if nfw:
        notes.append("%d fetching for loop(s) rewritten as loop-and-a-half" % nfw)
    nca = split_chained_assignments(model)
    if nca:
        notes.append("%d chained assignment(s) split into single stores" % nca)
    npc = pointer_cursors_to_indexes(model)
    if npc:
        notes.append("%d function(s) with pointer cursors into one array rewritten with index cursors" % npc)
    nic = index_cursor_reads(model)
    if nic:
        notes.append("%d read cursor(s) (*p++ sequences) rewritten as subscripts of the initial pointer" % nic)
    ntr = ternary_returns_to_if(model, known)
    if ntr:
        notes.append("%d ternary return(s) with a helper call in an arm rewritten as if / else" % ntr)
    nsc = split_small_struct_copies(model)
    if nsc:
        notes.append("%d whole-record copies of small records split into member stores" % nsc)
    nee = early_exit_form(model)
    if nee:
        notes.append("%d single-exit construct(s) with a result flag brought to early-exit form" % nee)
    ncg = continue_guards_to_blocks(model)
    if ncg:
        notes.append("%d continue guard(s) rewritten as blocks" % ncg)
    ngl = guards_to_loop_condition(model)
    if ngl:
        notes.append("%d endless loop(s) with leading break guards rewritten as while loops" % ngl)
    ntw = inline_tail_workers(model, known, notes)
    tail_touched = set()
    if ntw:
        # clean the callers that received a worker
        for f in model.funcs.values():
            if any(x["kind"] == "VarDecl" and str(x.get("id", "")).startswith("inl") for x in walk(f.body)) if f.body is not None else False:
                tail_touched.add(f.key)
    cands = {}
    for key, f in model.funcs.items():
        if not f.static or f.name in known:
            continue
        rel = model.rel(f.file) or ""
        if not rel.startswith(("src/", "include/")):
            continue
        if any(x["kind"] == "VarDecl" and x.get("storageClass") == "static" and not _readonly_table(x) for x in walk(f.body)):
            continue
        if _has_return_in_loop(f.body):
            notes.append("helper %s not inlined: return inside a loop or switch" % f.name)
            continue
        if sum(1 for _ in walk(f.body)) > 1500:
            continue
        cands[key] = f
    if not cands:
        _cleanup_touched(model, tail_touched)
        return notes
    # address taken / recursion
    for f in model.funcs.values():
        for k, n in model.fn_refs(f):
            if k in cands:
                notes.append("helper %s not inlined: its address is taken" % cands[k].name)
                cands.pop(k, None)
    for gk, g in model.globals.items():
        if gk in lowered_tables:
            continue                      # every use of this table became direct calls
        for n in walk(g.node):
            if n["kind"] == "DeclRefExpr" and n.get("ref", {}).get("kind") == "FunctionDecl":
                cands.pop(model.resolve(g.unit, n["ref"]["name"]), None)

    def calls_cand(f):
        return [(model.resolve(f.unit, callee_ref(n)), n) for n in walk(f.body)
                if n["kind"] == "CallExpr" and callee_ref(n) and model.resolve(f.unit, callee_ref(n)) in cands]
    # drop recursive candidates
    changed = True
    while changed:
        changed = False
        for k, g in list(cands.items()):
            seen, work = set(), [k]
            while work:
                x = work.pop()
                fx = model.funcs.get(x)
                if fx is None:
                    continue
                for ck, _ in calls_cand(fx):
                    if ck == k:
                        cands.pop(k, None)
                        changed = True
                        work = []
                        break
                    if ck not in seen:
                        seen.add(ck)
                        work.append(ck)
    # inline bottom-up: repeat until no candidate call remains or no progress
    leftover = set()
    touched = set()
    for _round in range(12):
        progress = False
        for f in list(model.funcs.values()):
            sites = calls_cand(f)
            if not sites:
                continue
            for ck, call in sites:
                g = cands[ck]
                if calls_cand(g):
                    continue            # inline into g first
                if _inline_site(f, call, g):
                    progress = True
                    touched.add(f.key)
                else:
                    leftover.add(ck)
        if not progress:
            break
    for k, g in list(cands.items()):
        still = any(ck == k for f in model.funcs.values() if f.key != k for ck, _ in calls_cand(f))
        if not still and k not in leftover:
            del model.funcs[k]
            model.static_names.get(g.unit, set()).discard(g.name)
            notes.append("helper %s inlined into its callers" % g.name)
        else:
            notes.append("helper %s kept (a call site could not be replaced)" % g.name)
    _cleanup_touched(model, touched | tail_touched)
    model._callgraph = None
    return notes


def _readonly_table(vd):
    """A local (possibly static) array of const elements with a brace initialiser free of calls: a constant table."""
    t = vd.get("type") or ""
    if not re.search(r"const\s*\[\d+\]$", t.strip()):
        return False
    init = kids(vd)
    if not init or strip(init[0], casts=True)["kind"] != "InitListExpr":
        return False
    return all(_pure_expr(e) for e in kids(strip(init[0], casts=True)))


def resolve_const_subscripts(f):
    """T[k] for a constant local table T (const elements, brace initialiser whose elements mention only variables that are
    never assigned) and an index that is a literal or a const local with a literal initialiser: the element itself."""
    if f.body is None:
        return 0
    assigned = _assigned_ids(f.body)
    consts, tables = {}, {}
    for x in walk(f.body):
        if x["kind"] != "VarDecl" or x.get("id") in assigned:
            continue
        t = (x.get("type") or "").strip()
        if _readonly_table(x):
            els = kids(strip(kids(x)[0], casts=True))
            refs = {y["ref"].get("id") for e in els for y in walk(e) if y["kind"] == "DeclRefExpr" and
                    y.get("ref", {}).get("kind") in ("VarDecl", "ParmVarDecl")}
            if not (refs & assigned):
                tables[x["id"]] = els
        elif kids(x) and (t.startswith("const ") or t.endswith("const")) and "*" not in t and "[" not in t:
            v = _const_value(kids(x)[0])
            i0 = strip(kids(x)[0], casts=True)
            if v is None and i0["kind"] == "DeclRefExpr":
                v = consts.get(i0.get("ref", {}).get("id"))        # a const copy of a const local (declared earlier)
            if v is not None:
                consts[x["id"]] = v
    if not tables:
        return 0
    n = 0
    for x in walk(f.body):
        ch = x.get("inner")
        if not ch:
            continue
        for i, c in enumerate(ch):
            if c["kind"] != "ArraySubscriptExpr":
                continue
            b = strip(kids(c)[0], casts=True)
            if b["kind"] != "DeclRefExpr" or b.get("ref", {}).get("id") not in tables:
                continue
            ix = strip(kids(c)[1], casts=True)
            k = _const_value(ix)
            if k is None and ix["kind"] == "DeclRefExpr":
                k = consts.get(ix.get("ref", {}).get("id"))
            els = tables[b["ref"]["id"]]
            if k is None or not (0 <= k < len(els)):
                continue
            ch[i] = _mk("ParenExpr", [copy.deepcopy(els[k])], type=c.get("type"), file=c.get("file"), line=c.get("line"),
                        col=c.get("col"))
            n += 1
    return n


def propagate_literal_params(f):
    """An inlined helper's parameter copy `T p = <literal>` (integer, enumerator, NULL) that is never assigned and whose
    address is not taken: every read is the literal."""
    if f.body is None:
        return False
    assigned = _assigned_ids(f.body)
    lits = {}
    for x in walk(f.body):
        if x["kind"] == "VarDecl" and str(x.get("id", "")).startswith("inl") and kids(x) and x["id"] not in assigned:
            i0 = strip(kids(x)[0], casts=True)
            if i0["kind"] in ("IntegerLiteral", "CXXBoolLiteralExpr", "GNUNullExpr") or \
                    (i0["kind"] == "DeclRefExpr" and i0.get("ref", {}).get("kind") == "EnumConstantDecl"):
                lits[x["id"]] = kids(x)[0]
    if not lits:
        return False
    changed = False
    for x in walk(f.body):
        ch = x.get("inner")
        if not ch or x["kind"] == "VarDecl" and x.get("id") in lits:
            continue
        for i, c in enumerate(ch):
            c0 = c
            while c0["kind"] == "ImplicitCastExpr" and c0.get("castKind") == "LValueToRValue" and kids(c0):
                c0 = kids(c0)[0]
            if c0["kind"] == "DeclRefExpr" and c0.get("ref", {}).get("id") in lits:
                ch[i] = _mk("ParenExpr", [copy.deepcopy(lits[c0["ref"]["id"]])], type=c.get("type"), file=c.get("file"),
                            line=c.get("line"), col=c.get("col"))
                changed = True
    return changed


def forward_condition_flags(f):
    """`r = (a == b); if (r) ...` with r a result local of inlined code that is read nowhere else: `if (a == b) ...`."""
    if f.body is None:
        return False
    changed = False
    reads = {}
    for x in walk(f.body):
        if x["kind"] == "DeclRefExpr" and x.get("ref", {}).get("kind") == "VarDecl":
            reads[x["ref"]["id"]] = reads.get(x["ref"]["id"], 0) + 1
    for blk in walk(f.body):
        if blk["kind"] != "CompoundStmt":
            continue
        st = blk.get("inner") or []
        i = 0
        while i + 1 < len(st):
            a, b = st[i], st[i + 1]
            i += 1
            if not (a["kind"] == "BinaryOperator" and a.get("opcode") == "="):
                continue
            l = strip(kids(a)[0], casts=True)
            if l["kind"] != "DeclRefExpr" or not str(l["ref"].get("id", "")).startswith("inl") or reads.get(l["ref"]["id"]) != 2:
                continue
            e = kids(a)[1]
            e0 = strip(e, casts=True)
            if not _pure_expr(e) or not (e0["kind"] == "BinaryOperator" and e0.get("opcode") in ("==", "!=", "<", "<=", ">", ">=", "&&", "||")
                                         or e0["kind"] == "UnaryOperator" and e0.get("opcode") == "!"):
                continue
            if b["kind"] != "IfStmt":
                continue
            c = kids(b)[0]
            c0 = strip(c, casts=True)
            neg = False
            if c0["kind"] == "UnaryOperator" and c0.get("opcode") == "!":
                neg = True
                c0 = strip(kids(c0)[0], casts=True)
            if c0["kind"] != "DeclRefExpr" or c0["ref"].get("id") != l["ref"]["id"]:
                continue
            newc = _mk("ParenExpr", [e], type="int", file=c.get("file"), line=c.get("line"), col=c.get("col"))
            b["inner"][0] = _not(newc) if neg else newc
            st.pop(i - 1)
            changed = True
    return changed


def _cleanup_touched(model, touched):
    for k in touched:
        f = model.funcs.get(k)
        if f is None:
            continue
        fold_pointer_null_tests(f)
        drop_dead_initialisers(f)
        resolve_const_subscripts(f)
        eliminate_out_pointers(f)
        for _ in range(4):
            if not thread_flags(f):
                break
        propagate_copies(f)
        # a pointer that was only copied on (T **ap = tgtp) is an out-pointer again once the copy is propagated
        for _ in range(3):
            if not eliminate_out_pointers(f):
                break
            propagate_copies(f)
        for _ in range(4):
            if not fuse_repeated_tests(f):
                break
        if fold_pointer_null_tests(f):
            propagate_copies(f)
        if resolve_const_subscripts(f):
            propagate_copies(f)
        if propagate_literal_params(f):
            enumerators_in_order_tests(model, f)
            for _ in range(4):
                if not thread_flags(f):
                    break
            fold_pointer_null_tests(f)
        forward_condition_flags(f)
        restore_loop_conditions(f)
    model._callgraph = None


def inline_tail_workers(model, known, notes):
    """A static worker that returns from inside a loop cannot be spliced in as a block.  Where a caller only post-processes the
    worker's result - `T v = worker(args); <loop-free rest ending in return>` or `return worker(args);` as statements of the
    caller's body - the worker's body takes the place of the call and every `return E` in it becomes `{ T v = E; <rest> }`
    (continuation inlining).  Parameters are bound to fresh locals, so a literal flag argument specialises the copy."""
    done = 0
    for gk, g in list(model.funcs.items()):
        if not g.static or g.name in known or g.body is None:
            continue
        rel = model.rel(g.file) or ""
        if not rel.startswith(("src/", "include/")) or not _has_return_in_loop(g.body):
            continue
        if any(x["kind"] == "VarDecl" and x.get("storageClass") == "static" for x in walk(g.body)):
            continue
        if sum(1 for _ in walk(g.body)) > 1500:
            continue
        # not recursive, address not taken
        if any(k_ == gk for f_ in model.funcs.values() for k_, _n in model.fn_refs(f_)):
            continue
        if any(x["kind"] == "CallExpr" and callee_ref(x) == g.name for x in walk(g.body)):
            continue
        sites = []
        for f in model.funcs.values():
            if f is g or f.body is None:
                continue
            for x in walk(f.body):
                if x["kind"] == "CallExpr" and callee_ref(x) == g.name and model.resolve(f.unit, g.name) == gk:
                    sites.append((f, x))
        if not sites:
            continue
        ok_all = True
        plans = []
        for f, call in sites:
            # the block whose statement the call is: the function body, or a nested block that ends in a return
            holder = None
            for blk_ in walk(f.body):
                if blk_["kind"] == "CompoundStmt":
                    for i, s_ in enumerate(kids(blk_)):
                        if s_["kind"] in ("DeclStmt", "ReturnStmt") and any(y is call for y in walk(s_)) or strip(s_, casts=True) is call:
                            holder, pos = blk_, i
            if holder is None:
                ok_all = False
                break
            st = holder.get("inner") or []
            s_ = st[pos]
            rest = st[pos + 1:]
            if holder is not f.body and any(any(y is holder for y in walk(l_)) for l_ in walk(f.body)
                                            if l_["kind"] in ("ForStmt", "WhileStmt", "DoStmt", "SwitchStmt")):
                ok_all = False          # inside a loop of the caller: the worker's returns would have to become jumps
                break
            vd = None
            if s_["kind"] == "ReturnStmt" and kids(s_) and strip(kids(s_)[0], casts=True) is call:
                mode = "return"
            elif s_["kind"] == "DeclStmt" and len(kids(s_)) == 1 and kids(kids(s_)[0]) and strip(kids(kids(s_)[0])[0], casts=True) is call:
                mode = "decl"
                vd = kids(s_)[0]
                writes = [y for y in walk(f.body) if y["kind"] in ("BinaryOperator", "CompoundAssignOperator") and
                          y.get("opcode", "").endswith("=") and y.get("opcode") not in ("==", "!=", "<=", ">=") and
                          strip(kids(y)[0], casts=True).get("ref", {}).get("id") == vd.get("id")]
                if writes or not rest or rest[-1]["kind"] != "ReturnStmt" or \
                        any(y["kind"] in ("ForStmt", "WhileStmt", "SwitchStmt", "GotoStmt", "LabelStmt") or
                            (y["kind"] == "DoStmt" and _const_value(kids(y)[1]) != 0) for r_ in rest for y in walk(r_)) or \
                        sum(1 for r_ in rest for _ in walk(r_)) > 400:
                    ok_all = False
                    break
            elif strip(s_, casts=True) is call and (g.type or "").strip().startswith(("void (", "void(")) and \
                    not rest and holder is f.body:
                mode = "last"
            else:
                ok_all = False
                break
            if len(kids(call)) - 1 != len(g.params):
                ok_all = False
                break
            plans.append((f, call, pos, mode, vd, rest, holder))
        if not ok_all:
            continue
        # two sites in the same caller would need re-planning after the first splice: leave those
        if len({id(f) for f, *_ in plans}) != len(plans):
            continue
        for f, call, pos, mode, vd, rest, holder in plans:
            idmap = {}
            decls = []
            for p_, a_ in zip(g.params, kids(call)[1:]):
                nid = _Ids.fresh(p_["id"])
                idmap[p_["id"]] = nid
                pv = _mk("VarDecl", [a_], name=p_.get("name"), id=nid, type=p_.get("type"), file=call.get("file"), line=call.get("line"),
                         col=call.get("col"), init="c")
                decls.append(_mk("DeclStmt", [pv], file=call.get("file"), line=call.get("line")))
            body = _rename(g.body, idmap)

            def cont(ret):
                if mode != "decl":
                    return ret
                e = kids(ret)[0] if kids(ret) else None
                vmap = {}
                nvid = _Ids.fresh(vd["id"])
                vmap[vd["id"]] = nvid
                nv = dict(vd)
                nv["id"] = nvid
                nv["inner"] = [e] if e is not None else []
                blk_rest = []
                for r_ in rest:
                    c_ = _rename(r_, vmap)
                    blk_rest.append(c_)
                return _mk("CompoundStmt", [_mk("DeclStmt", [nv], file=ret.get("file"), line=ret.get("line"))] + blk_rest,
                           file=ret.get("file"), line=ret.get("line"))

            def rewrite(n_):
                ch = n_.get("inner")
                if not ch:
                    return
                for i_, c_ in enumerate(ch):
                    if c_["kind"] == "ReturnStmt":
                        ch[i_] = cont(c_)
                    else:
                        rewrite(c_)
            rewrite(body)
            st = holder["inner"]
            holder["inner"] = st[:pos] + decls + kids(body)
            done += 1
        del model.funcs[gk]
        model.static_names.get(g.unit, set()).discard(g.name)
        notes.append("worker %s (returns inside a loop) inlined into %d caller(s) with their continuation" % (g.name, len(plans)))
    if done:
        model._callgraph = None
    return done


def _stmt_parent(f, node):
    """(parent CompoundStmt-or-branch owner, index, statement) of the statement that directly contains `node`."""
    path = []

    def rec(n):
        if n is node:
            return True
        for c in kids(n):
            if rec(c):
                path.append(n)
                return True
        return False
    if not rec(f.body):
        return None
    path.reverse()          # from body down to direct parent
    chain = path + [node]
    # find the innermost position where chain[i] is a CompoundStmt and chain[i+1] is its direct statement
    for i in range(len(chain) - 2, -1, -1):
        if chain[i]["kind"] == "CompoundStmt":
            stmt = chain[i + 1]
            return chain[i], kids(chain[i]).index(stmt), stmt, chain[i + 1:]
        # a branch/body that is a single statement (no braces): wrap on demand
        if chain[i]["kind"] in ("IfStmt", "ForStmt", "WhileStmt", "DoStmt") and chain[i + 1] is not kids(chain[i])[0]:
            pass
    return None


def _trivial_return_expr(g, keep_release=True):
    """the expression of a helper that is assertions + one `return e;`, else None"""
    ret = None
    for s_ in kids(g.body):
        k = s_["kind"]
        if k == "DoStmt":
            continue                    # a debug assertion (compiled out)
        if k in ("ParenExpr", "ConditionalOperator", "CStyleCastExpr") and \
                any(x["kind"] == "CallExpr" and callee_ref(x) == "cmi_assert_failed" for x in walk(s_)):
            if keep_release:
                return None             # a release assertion is behaviour: inline the helper as statements
            continue
        if k == "ReturnStmt" and ret is None and kids(s_):
            ret = kids(s_)[0]
            continue
        return None
    return ret


def _inline_expr(f, call, g):
    """Replace a call of a one-expression helper by that expression (arguments must be free of side effects)."""
    e = _trivial_return_expr(g)
    args = kids(call)[1:]
    if e is None or len(args) != len(g.params) or not all(_pure_expr(a) for a in args):
        return False
    sub = copy.deepcopy(e)
    amap = {p["id"]: a for p, a in zip(g.params, args)}

    def rec(n):
        ch = n.get("inner")
        if not ch:
            return
        for i, c in enumerate(ch):
            if c["kind"] == "DeclRefExpr" and c.get("ref", {}).get("id") in amap:
                ch[i] = _mk("ParenExpr", [copy.deepcopy(amap[c["ref"]["id"]])], type=c.get("type"), file=call.get("file"),
                            line=call.get("line"), col=call.get("col"))
            else:
                rec(c)
    holder = _mk("ParenExpr", [sub], type=call.get("type"), file=call.get("file"), line=call.get("line"), col=call.get("col"))
    rec(holder)
    return _replace_node(f.body, call, holder)


def _inline_site(f, call, g):
    if _inline_expr(f, call, g):
        return True
    loc_ = _stmt_parent(f, call)
    if loc_ is None:
        return False
    comp, idx, stmt, chain = loc_
    # a while loop whose condition starts with the call:  while (f(a) ...) B   ->   for (;;) { <f inlined>; if (!(R ...)) break; B }
    if stmt["kind"] == "WhileStmt" and any(x is call for x in walk(kids(stmt)[0])):
        if _first_evaluated_call(kids(stmt)[0]) is not call:
            return False
        if (g.type or "").strip().startswith(("void (", "void(")):
            return False
        inst = _instantiate(g, call, True)
        if inst is None:
            return False
        stmts, rref = inst
        cond = kids(stmt)[0]
        holder = _mk("ParenExpr", [cond], type="int", file=cond.get("file"), line=cond.get("line"))
        if cond is call:
            holder["inner"] = [rref]
        elif not _replace_node(holder, call, rref):
            return False
        guard = _mk("IfStmt", [_negate(kids(holder)[0]), _mk("BreakStmt", [], file=stmt.get("file"), line=stmt.get("line"))],
                    file=stmt.get("file"), line=stmt.get("line"))
        body = kids(stmt)[1]
        old_body = list(kids(body)) if body["kind"] == "CompoundStmt" else [body]
        nb = _mk("CompoundStmt", stmts + [guard] + old_body, file=body.get("file"), line=body.get("line"))
        one = _mk("IntegerLiteral", [], value="1", type="int", file=stmt.get("file"), line=stmt.get("line"))
        stmt["inner"] = [one, nb]
        return True
    if stmt["kind"] in ("ForStmt", "WhileStmt", "DoStmt"):
        return False
    s0 = stmt
    core = s0
    while core["kind"] in ("ParenExpr", "ImplicitCastExpr", "CStyleCastExpr"):
        core = kids(core)[-1]
    void_ret = (g.type or "").strip().startswith("void (") or (g.type or "").strip().startswith("void(")
    # (1) call statement
    if core is call:
        inst = _instantiate(g, call, False)
        if inst is None:
            return False
        stmts, _ = inst
        comp["inner"][idx:idx + 1] = stmts
        return True
    if void_ret:
        return False
    # (2) T v = f(...);   x = f(...);   return f(...);   if (f(...) ...) - the call is evaluated first
    host = None
    if s0["kind"] == "DeclStmt" and len(kids(s0)) == 1 and kids(kids(s0)[0]):
        if _first_evaluated_call(kids(kids(s0)[0])[0]) is call:
            host = s0
    elif s0["kind"] == "BinaryOperator" and s0.get("opcode") == "=":
        lhs = strip(kids(s0)[0], casts=True)
        if lhs["kind"] in ("DeclRefExpr", "MemberExpr") and not any(x["kind"] == "CallExpr" for x in walk(lhs)) \
                and _first_evaluated_call(kids(s0)[1]) is call:
            host = s0
    elif s0["kind"] == "ReturnStmt" and kids(s0) and _first_evaluated_call(kids(s0)[0]) is call:
        host = s0
    elif s0["kind"] == "IfStmt" and _first_evaluated_call(kids(s0)[0]) is call:
        host = s0
    elif s0["kind"] in ("CStyleCastExpr", "ParenExpr") and _first_evaluated_call(s0) is call:
        host = s0
    elif core["kind"] == "CallExpr" and core is not call:
        # outer(a, helper(b), c) as a statement, the other arguments (and the callee) free of calls and side effects:
        # evaluating the helper first changes nothing
        args = kids(core)[1:]
        mine = [a_ for a_ in args if strip(a_, casts=True) is call or any(x is call for x in walk(a_))]
        others = [a_ for a_ in args if a_ not in mine]
        if len(mine) == 1 and _first_evaluated_call(mine[0]) is call and all(_pure_expr(a_) for a_ in others) and \
                _pure_expr(kids(core)[0]):
            host = s0
    if host is None:
        # T v = outer(a, helper(b), c);  return outer(helper(b), c);  - the other arguments and the callee free of side
        # effects: evaluating the helper first changes nothing
        e = None
        if s0["kind"] == "DeclStmt" and len(kids(s0)) == 1 and kids(kids(s0)[0]):
            e = kids(kids(s0)[0])[0]
        elif s0["kind"] == "ReturnStmt" and kids(s0):
            e = kids(s0)[0]
        elif s0["kind"] == "BinaryOperator" and s0.get("opcode") == "=":
            lhs = strip(kids(s0)[0], casts=True)
            if lhs["kind"] == "DeclRefExpr":
                e = kids(s0)[1]
        outer = _first_evaluated_call(e) if e is not None else None
        if outer is not None and outer is not call:
            args = kids(outer)[1:]
            mine = [a_ for a_ in args if any(x is call for x in walk(a_))]
            others = [a_ for a_ in args if a_ not in mine]
            if len(mine) == 1 and _first_evaluated_call(mine[0]) is call and all(_pure_expr(a_) for a_ in others) and \
                    _pure_expr(kids(outer)[0]):
                host = s0
    if host is None:
        return False
    inst = _instantiate(g, call, True)
    if inst is None:
        return False
    stmts, rref = inst
    if not _replace_node(host, call, rref):
        return False
    comp["inner"][idx:idx + 1] = stmts + [host]
    return True


# ---------------------------------------------------------------------------------------------------------------
def _pure_expr(n):
    """no calls, assignments or increments inside"""
    for x in walk(n):
        if x["kind"] in ("CallExpr", "CompoundAssignOperator", "AtomicExpr", "StmtExpr", "VAArgExpr"):
            return False
        if x["kind"] == "BinaryOperator" and x.get("opcode") in ("=", ","):
            return False
        if x["kind"] == "UnaryOperator" and x.get("opcode") in ("++", "--"):
            return False
    return True


def _lower_switch(sw):
    """switch (e) { case A: S; break; case B: case C: T; break; default: U; }  ->  if (e == A) {S} else if (e == B || e == C)
    {T} else {U}; None if there is fall-through with statements, a break nested in an inner construct that is not a loop,
    or an impure controlling expression."""
    ch = kids(sw)
    ch = [c for c in ch if c["kind"] != "Null"]
    if len(ch) != 2 or ch[1]["kind"] != "CompoundStmt":
        return None
    cond, body = ch
    hoisted = None
    if not _pure_expr(cond):
        # evaluate the controlling expression once into a synthetic local (the inliner then sees a plain initialiser)
        vid = _Ids.fresh("switch")
        vt = cond.get("type") or "int"
        vd = _mk("VarDecl", [cond], name="switch_on_%d" % _Ids.n, id=vid, type=vt, file=sw.get("file"), line=sw.get("line"),
                 col=sw.get("col"), init="c")
        hoisted = _mk("DeclStmt", [vd], file=sw.get("file"), line=sw.get("line"))
        cond = _mk("DeclRefExpr", [], ref={"id": vid, "kind": "VarDecl", "name": vd["name"], "type": vt}, type=vt,
                   file=sw.get("file"), line=sw.get("line"), col=sw.get("col"))
    groups = []          # (labels or None for default, [stmts], terminated)
    cur = None
    for st in kids(body):
        labels_here = []
        inner = st
        is_default = False
        while inner["kind"] in ("CaseStmt", "DefaultStmt"):
            if inner["kind"] == "CaseStmt":
                labels_here.append(kids(inner)[0])
                inner = kids(inner)[-1]
            else:
                is_default = True
                inner = kids(inner)[-1]
        if labels_here or is_default:
            if cur is not None and not cur[2]:
                if cur[1]:
                    return None          # fall-through out of a non-empty group
                # empty group: its labels join the next one
                labels_here = (cur[0] or []) + labels_here
                is_default = is_default or cur[3]
                groups.pop()
            cur = [labels_here, [], False, is_default]
            groups.append(cur)
            st = inner
        if cur is None:
            return None
        if st["kind"] == "BreakStmt":
            cur[2] = True
            continue
        if cur[2]:
            return None                  # statements after break without a label
        if st["kind"] == "CompoundStmt" and kids(st) and kids(st)[-1]["kind"] in ("BreakStmt", "ReturnStmt"):
            # case X: { ...; break; }
            if kids(st)[-1]["kind"] == "BreakStmt":
                st = dict(st)
                st["inner"] = list(kids(st)[:-1])
            cur[1].append(st)
            cur[2] = True
            continue
        cur[1].append(st)
        if st["kind"] == "ReturnStmt":
            cur[2] = True
    # `if (c) { A; break; } rest` inside a case body is `if (c) { A } else { rest }`
    def unnest(stmts):
        out = []
        for i_, s_ in enumerate(stmts):
            if s_["kind"] == "CompoundStmt":
                s2 = dict(s_)
                s2["inner"] = unnest(list(kids(s_)))
                out.append(s2)
                continue
            if s_["kind"] == "IfStmt" and len(kids(s_)) == 2:
                th = kids(s_)[1]
                body_ = list(kids(th)) if th["kind"] == "CompoundStmt" else [th]
                if body_ and body_[-1]["kind"] == "BreakStmt" and not any(has_switch_break(b_) for b_ in body_[:-1]):
                    rest = unnest(stmts[i_ + 1:])
                    then_blk = _mk("CompoundStmt", body_[:-1], file=s_.get("file"), line=s_.get("line"))
                    inner_ = [kids(s_)[0], then_blk] + ([_mk("CompoundStmt", rest, file=s_.get("file"), line=s_.get("line"))] if rest else [])
                    out.append(_mk("IfStmt", inner_, file=s_.get("file"), line=s_.get("line"), col=s_.get("col")))
                    return out
            out.append(s_)
        return out

    # a break belonging to the switch nested inside an if: not handled
    def has_switch_break(n, inloop=False):
        if n["kind"] == "BreakStmt":
            return not inloop
        if n["kind"] in ("ForStmt", "WhileStmt", "DoStmt", "SwitchStmt"):
            return False
        return any(has_switch_break(c, inloop) for c in kids(n))
    for g in groups:
        g[1] = unnest(g[1])
    for g in groups:
        if any(has_switch_break(s_) for s_ in g[1]):
            return None
    def eq(label):
        return _mk("BinaryOperator", [copy.deepcopy(cond), label], opcode="==", type="int", file=sw.get("file"), line=sw.get("line"))
    node = None
    default = None
    chain = []
    for labels, stmts, term, is_def in groups:
        blk = _mk("CompoundStmt", stmts, file=sw.get("file"), line=sw.get("line"))
        if is_def:
            default = blk
            if labels:
                pass                     # labels that share the default branch need no test
            continue
        c = eq(labels[0])
        for lb in labels[1:]:
            c = _mk("BinaryOperator", [c, eq(lb)], opcode="||", type="int", file=sw.get("file"), line=sw.get("line"))
        chain.append((c, blk))
    if not chain:
        return default if hoisted is None else _mk("CompoundStmt", [hoisted] + ([default] if default is not None else []),
                                                   file=sw.get("file"), line=sw.get("line"))
    tail = default
    for c, blk in reversed(chain):
        inner = [c, blk] + ([tail] if tail is not None else [])
        tail = _mk("IfStmt", inner, file=sw.get("file"), line=sw.get("line"), col=sw.get("col"))
    if hoisted is not None:
        return _mk("CompoundStmt", [hoisted, tail], file=sw.get("file"), line=sw.get("line"), synthetic_block=True)
    return tail


_STRUCTURAL = ("CompoundStmt", "IfStmt", "ForStmt", "WhileStmt", "DoStmt", "SwitchStmt", "CaseStmt", "DefaultStmt", "LabelStmt")


def lower_table_dispatch(model):
    """A call through a constant table of functions, `T[i](args)` or `f = T[i]; ... (*f)(args)`, becomes the chain
    `if (i == 0) T0(args) else if (i == 1) T1(args) ...` (NULL entries have no arm; an index of enum type is compared with
    the enumerator of that value).  Returns (number lowered, keys of tables all of whose uses were lowered)."""
    n_low = 0
    tables = {}            # VarDecl id -> (global key or None, [function DeclRefExpr or None])
    for key, g in model.globals.items():
        node = g.node
        t = node.get("type") or ""
        if "const" not in t or "[" not in t:
            continue
        il = [x for x in kids(node) if x["kind"] == "InitListExpr"]
        if len(il) != 1:
            continue
        ents = []
        ok = True
        for e in kids(il[0]):
            e0 = strip(e, casts=True)
            if e0["kind"] == "DeclRefExpr" and e0.get("ref", {}).get("kind") == "FunctionDecl":
                ents.append(e0)
            elif e0["kind"] == "ImplicitValueInitExpr" or _const_value(e0) == 0 or e0["kind"] == "GNUNullExpr":
                ents.append(None)
            else:
                ok = False
        if ok and any(e is not None for e in ents):
            tables[node.get("id")] = (key, ents)
    other_use = set()
    for f in model.funcs.values():
        rel = model.rel(f.file) or ""
        if not rel.startswith(("src/", "include/")):
            continue

        def table_subscript(e):
            e0 = strip(e, casts=True)
            while e0["kind"] == "UnaryOperator" and e0.get("opcode") == "*":
                e0 = strip(kids(e0)[0], casts=True)
            if e0["kind"] == "ConditionalOperator":
                # (in range) ? T[i] : NULL - the entry where there is one (a call through NULL does not happen)
                from .astutil import is_null_expr as _isnull
                a_, b_ = kids(e0)[1], kids(e0)[2]
                live = [z for z in (a_, b_) if not _isnull(z)]
                if len(live) == 1:
                    return table_subscript(live[0])
                return None
            if e0["kind"] == "ArraySubscriptExpr":
                b = strip(kids(e0)[0], casts=True)
                if b["kind"] == "DeclRefExpr" and b.get("ref", {}).get("id") in tables:
                    return b["ref"]["id"], kids(e0)[1], e0
            return None
        # a local function pointer chosen by a ternary of two functions: `f = c ? A : B; ... (*f)(args)` is
        # `if (c) A(args) else B(args)` when c is a plain local that is not assigned in between (it is evaluated once)
        cond_held = {}
        for x in walk(f.body):
            if x["kind"] == "VarDecl" and kids(x):
                ini = strip(kids(x)[0], casts=True)
                if ini["kind"] == "ConditionalOperator":
                    a_, b_ = strip(kids(ini)[1], casts=True), strip(kids(ini)[2], casts=True)
                    c_ = strip(kids(ini)[0], casts=True)
                    if a_["kind"] == "DeclRefExpr" and b_["kind"] == "DeclRefExpr" and \
                            a_.get("ref", {}).get("kind") == "FunctionDecl" and b_.get("ref", {}).get("kind") == "FunctionDecl" and \
                            c_["kind"] == "DeclRefExpr" and c_.get("ref", {}).get("kind") in ("VarDecl", "ParmVarDecl"):
                        cid = c_["ref"]["id"]
                        writes = [y for y in walk(f.body) if y["kind"] in ("BinaryOperator", "CompoundAssignOperator") and
                                  y.get("opcode", "").endswith("=") and y.get("opcode") not in ("==", "!=", "<=", ">=") and
                                  strip(kids(y)[0], casts=True).get("ref", {}).get("id") in (cid, x.get("id"))]
                        if not writes:
                            cond_held[x.get("id")] = (kids(ini)[0], a_, b_)
        if cond_held:
            progress = True
            while progress:
                progress = False
                for x in walk(f.body):
                    if x["kind"] not in _STRUCTURAL:
                        continue
                    ch = x.get("inner") or []
                    for i, c in enumerate(ch):
                        if c["kind"] in _STRUCTURAL or c["kind"] in ("DeclStmt", "ReturnStmt", "Null"):
                            continue
                        if (x["kind"] in ("IfStmt", "WhileStmt", "SwitchStmt") and i == 0) or (x["kind"] == "ForStmt" and i < 4) or \
                                (x["kind"] == "DoStmt" and i == 1):
                            continue
                        for y in walk(c):
                            if y["kind"] != "CallExpr":
                                continue
                            cal = strip(kids(y)[0], casts=True)
                            while cal["kind"] == "UnaryOperator" and cal.get("opcode") == "*":
                                cal = strip(kids(cal)[0], casts=True)
                            if cal["kind"] == "DeclRefExpr" and cal.get("ref", {}).get("id") in cond_held:
                                cnd, fa, fb = cond_held[cal["ref"]["id"]]
                                pos = [j for j, z in enumerate(walk(c)) if z is y][0]
                                arms = []
                                for fn_ in (fa, fb):
                                    st_ = copy.deepcopy(c)
                                    y2 = list(walk(st_))[pos]
                                    y2["inner"] = [copy.deepcopy(fn_)] + list(kids(y2)[1:])
                                    arms.append(_mk("CompoundStmt", [st_], file=c.get("file"), line=c.get("line")))
                                ch[i] = _mk("IfStmt", [copy.deepcopy(cnd), arms[0], arms[1]], file=c.get("file"), line=c.get("line"), col=c.get("col"))
                                n_low += 1
                                progress = True
                                break
                        if progress:
                            break
                    if progress:
                        break
        # locals that hold one table entry
        held = {}
        for x in walk(f.body):
            if x["kind"] == "VarDecl" and kids(x):
                ts = table_subscript(kids(x)[0])
                if ts is not None:
                    held[x.get("id")] = ts
        stores = set()
        for x in walk(f.body):
            if x["kind"] == "BinaryOperator" and x.get("opcode") == "=":
                l = strip(kids(x)[0], casts=True)
                if l["kind"] == "DeclRefExpr" and l["ref"].get("id") in held:
                    stores.add(l["ref"]["id"])
        for h in stores:
            held.pop(h, None)
        changed = True
        handled_nodes = set()
        while changed:
            changed = False
            for x in walk(f.body):
                if x["kind"] not in _STRUCTURAL:
                    continue
                ch = x.get("inner") or []
                for i, c in enumerate(ch):
                    if c["kind"] in _STRUCTURAL or c["kind"] in ("DeclStmt", "ReturnStmt", "Null"):
                        continue
                    if x["kind"] in ("IfStmt", "WhileStmt", "SwitchStmt") and i == 0:
                        continue              # the controlling expression
                    if x["kind"] == "ForStmt" and i < 4:
                        continue
                    if x["kind"] == "DoStmt" and i == 1:
                        continue
                    calls = [y for y in walk(c) if y["kind"] == "CallExpr"]
                    hit = None
                    for y in calls:
                        cal = strip(kids(y)[0], casts=True)
                        while cal["kind"] == "UnaryOperator" and cal.get("opcode") == "*":
                            cal = strip(kids(cal)[0], casts=True)
                        ts = table_subscript(cal)
                        if ts is None and cal["kind"] == "DeclRefExpr" and cal.get("ref", {}).get("id") in held:
                            ts = held[cal["ref"]["id"]]
                        if ts is not None:
                            hit = (y, ts)
                            break
                    if hit is None:
                        continue
                    y, (tid, idx, sub) = hit
                    if not _pure_expr(idx):
                        continue
                    key, ents = tables[tid]
                    it = strip(idx, casts=True)
                    # follow a single-definition local to see an enum type
                    ity = it.get("type") or ""
                    if it["kind"] == "DeclRefExpr" and it["ref"].get("kind") == "VarDecl":
                        for vd in walk(f.body):
                            if vd["kind"] == "VarDecl" and vd.get("id") == it["ref"]["id"] and kids(vd):
                                ity = strip(kids(vd)[0], casts=True).get("type") or ity
                    enum_names = None
                    ity = ity.replace("const ", "").replace("volatile ", "").strip()
                    if ity.startswith("enum "):
                        enum_names = model.enums.get(ity[5:].strip())
                    arms = []
                    for k_, ent in enumerate(ents):
                        if ent is None:
                            continue
                        lab = None
                        if enum_names:
                            for nm in enum_names:
                                if model.enumerators.get(nm) == k_:
                                    lab = _mk("DeclRefExpr", [], ref={"id": "enum:" + nm, "kind": "EnumConstantDecl", "name": nm, "type": "int"},
                                              type="int", file=c.get("file"), line=c.get("line"))
                        if lab is None:
                            lab = _mk("IntegerLiteral", [], value=str(k_), type="int", file=c.get("file"), line=c.get("line"))
                        test = _mk("BinaryOperator", [copy.deepcopy(idx), lab], opcode="==", type="int", file=c.get("file"), line=c.get("line"))
                        st = copy.deepcopy(c)
                        # the copy of the call: replace its callee by the entry
                        pos = [j for j, z in enumerate(walk(c)) if z is y][0]
                        y2 = list(walk(st))[pos]
                        y2["inner"] = [copy.deepcopy(ent)] + list(kids(y2)[1:])
                        arms.append((test, _mk("CompoundStmt", [st], file=c.get("file"), line=c.get("line"))))
                    tail = None
                    for test, blk in reversed(arms):
                        tail = _mk("IfStmt", [test, blk] + ([tail] if tail is not None else []), file=c.get("file"), line=c.get("line"), col=c.get("col"))
                    if tail is None:
                        continue
                    ch[i] = tail
                    tail["lowered_from_holder"] = cal["ref"]["id"] if cal["kind"] == "DeclRefExpr" else None
                    handled_nodes.add(id(sub))
                    n_low += 1
                    changed = True
                    break
                if changed:
                    break
        # `if (h != NULL) <chain>` around a lowered call through holder h: the chain has an arm exactly for the entries that
        # are not NULL, so the test adds nothing
        for x in walk(f.body):
            ch = x.get("inner") or []
            for i, c in enumerate(ch):
                if c["kind"] == "IfStmt" and len(kids(c)) == 2:
                    cnd = strip(kids(c)[0], casts=True)
                    hid = None
                    if cnd["kind"] == "BinaryOperator" and cnd.get("opcode") == "!=":
                        from .astutil import is_null_expr as _isn
                        for u_, v_ in ((kids(cnd)[0], kids(cnd)[1]), (kids(cnd)[1], kids(cnd)[0])):
                            u0 = strip(u_, casts=True)
                            if u0["kind"] == "DeclRefExpr" and u0["ref"].get("id") in held and _isn(v_):
                                hid = u0["ref"]["id"]
                    elif cnd["kind"] == "DeclRefExpr" and cnd["ref"].get("id") in held:
                        hid = cnd["ref"]["id"]
                    th = kids(c)[1]
                    body_ = [b_ for b_ in (kids(th) if th["kind"] == "CompoundStmt" else [th]) if b_["kind"] != "NullStmt"]
                    if hid is not None and len(body_) == 1 and body_[0].get("lowered_from_holder") == hid:
                        ch[i] = body_[0]
        # any remaining evaluated reference to a table (outside sizeof, outside the initialiser of a local we resolved)
        def scan(n, in_sizeof):
            if n["kind"] == "UnaryExprOrTypeTraitExpr":
                in_sizeof = True
            if n["kind"] == "DeclRefExpr" and n.get("ref", {}).get("id") in tables and not in_sizeof:
                return [n]
            out = []
            for c_ in kids(n):
                out += scan(c_, in_sizeof)
            return out
        live_holders = set()
        for y in walk(f.body):
            if y["kind"] == "DeclRefExpr" and y.get("ref", {}).get("id") in held:
                # a holder that is still called through (not lowered) or compared only? comparisons with NULL are harmless
                live_holders.add(y["ref"]["id"])
        for x in walk(f.body):
            if x["kind"] == "CallExpr":
                cal = strip(kids(x)[0], casts=True)
                while cal["kind"] == "UnaryOperator" and cal.get("opcode") == "*":
                    cal = strip(kids(cal)[0], casts=True)
                if (cal["kind"] == "DeclRefExpr" and cal.get("ref", {}).get("id") in held) or table_subscript(cal) is not None:
                    tid = held[cal["ref"]["id"]][0] if cal["kind"] == "DeclRefExpr" else table_subscript(cal)[0]
                    other_use.add(tid)
        for r_ in scan(f.body, False):
            # references inside the initialiser of a resolved holder are fine
            ok_ref = False
            for vd in walk(f.body):
                if vd["kind"] == "VarDecl" and vd.get("id") in held and any(z is r_ for z in walk(vd)):
                    ok_ref = True
            if not ok_ref:
                other_use.add(r_["ref"]["id"])
    done = {tables[t][0] for t in tables if t not in other_use}
    return n_low, done


def _not(c):
    c0 = strip(c)
    if c0["kind"] == "UnaryOperator" and c0.get("opcode") == "!":
        return kids(c0)[0]
    return _mk("UnaryOperator", [_mk("ParenExpr", [c], type=c.get("type"), file=c.get("file"), line=c.get("line"))], opcode="!",
               type="int", file=c.get("file"), line=c.get("line"), col=c.get("col"))


def _refs_to(root, vid):
    return [x for x in walk(root) if x["kind"] == "DeclRefExpr" and x.get("ref", {}).get("id") == vid]


def early_exit_form(model):
    """Single-exit code written with a result flag is brought to the early-exit form the rules read:
      (1)  T r = K0; ...; if (c) { S; r = K1; } return r;        ->  ...; if (!c) return K0; S; return K1;
      (2)  r = K (K satisfies T); while (T(r) && C) { B; r = E; }  if (T(r)) X else Y;  return r;
                                                                  ->  while (C) { B; r = E; if (!T(r)) { Y; return r; } }  X; return r;
    (r is a local that is not referenced otherwise in (1); in (2) it is assigned only by the last statement of the loop body).
    Both rewrites preserve the order of all effects."""
    n = 0
    for f in model.funcs.values():
        rel = model.rel(f.file) or ""
        if not rel.startswith(("src/", "include/")) or f.body is None:
            continue
        st = f.body.get("inner") or []
        # ---- (1)
        if len(st) >= 3 and st[-1]["kind"] == "ReturnStmt" and kids(st[-1]) and st[-2]["kind"] == "IfStmt" and len(kids(st[-2])) == 2:
            rv = strip(kids(st[-1])[0], casts=True)
            if rv["kind"] == "DeclRefExpr" and rv["ref"].get("kind") == "VarDecl":
                vid = rv["ref"]["id"]
                decl = None
                for d in st[:-2]:
                    if d["kind"] == "DeclStmt":
                        for vd in kids(d):
                            if vd["kind"] == "VarDecl" and vd.get("id") == vid and kids(vd) and _const_value(kids(vd)[0]) is not None:
                                decl = vd
                then = kids(st[-2])[1]
                tb = list(kids(then)) if then["kind"] == "CompoundStmt" else [then]
                if decl is not None and tb:
                    last = tb[-1]
                    k1 = _assign_const_to(last, vid) if last["kind"] == "BinaryOperator" else None
                    nrefs = len(_refs_to(f.body, vid))
                    if k1 is not None and nrefs == 2:           # the final assignment and the return
                        def ret(v_, like):
                            return _mk("ReturnStmt", [copy.deepcopy(v_)], file=like.get("file"), line=like.get("line"), col=like.get("col"))
                        guard = _mk("IfStmt", [_not(kids(st[-2])[0]),
                                               _mk("CompoundStmt", [ret(kids(decl)[0], st[-2])], file=st[-2].get("file"), line=st[-2].get("line"))],
                                    file=st[-2].get("file"), line=st[-2].get("line"), col=st[-2].get("col"))
                        f.body["inner"] = st[:-2] + [guard] + tb[:-1] + [ret(kids(last)[1], st[-1])]
                        n += 1
                        continue
        # ---- (2)
        for blk in list(walk(f.body)):
            if blk["kind"] != "CompoundStmt":
                continue
            b = blk["inner"]
            for i in range(len(b) - 2):
                lp, test_if = b[i], b[i + 1]
                if lp["kind"] != "WhileStmt" or test_if["kind"] != "IfStmt" or len(kids(test_if)) != 3:
                    continue
                rest = b[i + 2:]
                if not rest or rest[-1]["kind"] != "ReturnStmt" or any(x["kind"] in ("WhileStmt", "ForStmt", "DoStmt") for r_ in rest for x in walk(r_)):
                    continue
                cond = strip(kids(lp)[0])
                if cond["kind"] != "BinaryOperator" or cond.get("opcode") != "&&":
                    continue
                lbody = kids(lp)[1]
                lb = list(kids(lbody)) if lbody["kind"] == "CompoundStmt" else [lbody]
                if not lb or lb[-1]["kind"] != "BinaryOperator" or lb[-1].get("opcode") != "=":
                    continue
                tgt = strip(kids(lb[-1])[0], casts=True)
                if tgt["kind"] != "DeclRefExpr":
                    continue
                vid = tgt["ref"]["id"]
                halves = [kids(cond)[0], kids(cond)[1]]
                ft = _flag_test(halves[0], {vid})
                if ft is None:
                    continue
                other = halves[1]
                if _refs_to(other, vid) or not _pure_expr(other):
                    continue
                # assigned nowhere else in the loop body
                if any(strip(kids(x)[0], casts=True).get("ref", {}).get("id") == vid for st_ in lb[:-1] for x in walk(st_)
                       if x["kind"] in ("BinaryOperator", "CompoundAssignOperator") and x.get("opcode", "").endswith("=")
                       and x.get("opcode") not in ("==", "!=", "<=", ">=")):
                    continue
                # the flag has a constant value satisfying the test when the loop is entered
                k0 = None
                for prev in reversed(b[:i]):
                    if prev["kind"] == "DeclStmt":
                        for vd in kids(prev):
                            if vd.get("id") == vid and kids(vd):
                                k0 = _const_value(kids(vd)[0])
                        if k0 is not None:
                            break
                        continue
                    v_ = _assign_const_to(prev, vid) if prev["kind"] == "BinaryOperator" else None
                    if v_ is not None:
                        k0 = v_
                        break
                    if _refs_to(prev, vid) or any(x["kind"] in ("WhileStmt", "ForStmt", "DoStmt", "IfStmt") for x in walk(prev)):
                        break
                if k0 is None:
                    # declared with the constant at function level and untouched since?
                    for vd in walk(f.body):
                        if vd["kind"] == "VarDecl" and vd.get("id") == vid and kids(vd) and _const_value(kids(vd)[0]) is not None:
                            writes = [x for x in walk(f.body) if x["kind"] == "BinaryOperator" and x.get("opcode") == "=" and
                                      strip(kids(x)[0], casts=True).get("ref", {}).get("id") == vid]
                            if len(writes) == 1 and writes[0] is lb[-1]:
                                k0 = _const_value(kids(vd)[0])
                if k0 is None or not ft[1](k0):
                    continue
                ft2 = _flag_test(kids(test_if)[0], {vid})
                if ft2 is None:
                    continue
                # which branch of the if belongs to "test holds"?
                holds_then = all(ft2[1](v_) == ft[1](v_) for v_ in (-5, -4, -3, -2, -1, 0, 1, 2, 3))
                holds_else = all(ft2[1](v_) != ft[1](v_) for v_ in (-5, -4, -3, -2, -1, 0, 1, 2, 3))
                if not (holds_then or holds_else):
                    continue
                X = kids(test_if)[1] if holds_then else kids(test_if)[2]
                Y = kids(test_if)[2] if holds_then else kids(test_if)[1]
                ylist = list(kids(Y)) if Y["kind"] == "CompoundStmt" else [Y]
                xlist = list(kids(X)) if X["kind"] == "CompoundStmt" else [X]
                exit_blk = _mk("CompoundStmt", [_rename(y_, {}) for y_ in ylist] + [_rename(r_, {}) for r_ in rest],
                               file=test_if.get("file"), line=test_if.get("line"))
                leave = _mk("IfStmt", [_not(copy.deepcopy(halves[0])), exit_blk], file=test_if.get("file"), line=test_if.get("line"),
                            col=test_if.get("col"))
                new_body = _mk("CompoundStmt", lb + [leave], file=lbody.get("file"), line=lbody.get("line"))
                new_loop = dict(lp)
                new_loop["inner"] = [other, new_body]
                blk["inner"] = b[:i] + [new_loop] + xlist + rest
                n += 1
                break
    return n


def split_small_struct_copies(model):
    """`A = B;` as a statement, for a record type of at most four scalar / pointer members, becomes one store per member (the
    rules read the members; a whole-record copy says nothing different)."""
    n = 0
    for f in model.funcs.values():
        rel = model.rel(f.file) or ""
        if not rel.startswith(("src/", "include/")) or f.body is None:
            continue
        for blk in walk(f.body):
            if blk["kind"] != "CompoundStmt":
                continue
            out = []
            for st in blk.get("inner") or []:
                if st["kind"] == "BinaryOperator" and st.get("opcode") == "=":
                    t = (st.get("type") or "").replace("const ", "").strip()
                    if t.startswith("struct ") and not t.endswith("*"):
                        rec = model.records.get(t[7:].strip())
                        if rec and len(rec) <= 4 and all("[" not in ft and not ft.replace("const ", "").startswith(("struct ", "union ")) or ft.rstrip().endswith("*")
                                                         for _fn, ft, _fd in rec) and \
                                _pure_expr(kids(st)[0]) and _pure_expr(kids(st)[1]):
                            for fn_, ft_, fd_ in rec:
                                def mem(base):
                                    b = copy.deepcopy(base)
                                    return _mk("MemberExpr", [b], name=fn_, isArrow=False, type=ft_, file=st.get("file"), line=st.get("line"),
                                               col=st.get("col"))
                                out.append(_mk("BinaryOperator", [mem(kids(st)[0]), mem(kids(st)[1])], opcode="=", type=ft_,
                                               file=st.get("file"), line=st.get("line"), col=st.get("col")))
                            n += 1
                            continue
                if st["kind"] == "BinaryOperator" and st.get("opcode") == "=":
                    # `*p = (struct T){ e1, ..., en };` with initialisers that read only locals and literals: member stores
                    r0 = kids(st)[1]
                    while r0["kind"] in ("ParenExpr", "ImplicitCastExpr") and kids(r0):
                        r0 = kids(r0)[0]
                    t = (st.get("type") or "").replace("const ", "").strip()
                    if r0["kind"] == "CompoundLiteralExpr" and kids(r0) and kids(r0)[0]["kind"] == "InitListExpr" and \
                            t.startswith("struct ") and _pure_expr(kids(st)[0]):
                        rec = model.records.get(t[7:].strip())
                        els = kids(kids(r0)[0])
                        if rec and len(rec) == len(els) and \
                                all("[" not in ft and not ft.replace("const ", "").startswith(("struct ", "union ")) or ft.rstrip().endswith("*")
                                    for _fn, ft, _fd in rec) and \
                                all(_pure_expr(e) and not any(y["kind"] in ("MemberExpr", "ArraySubscriptExpr", "UnaryOperator")
                                                              and (y["kind"] != "UnaryOperator" or y.get("opcode") in ("*", "&"))
                                                              for y in walk(e)) for e in els):
                            for (fn_, ft_, fd_), e in zip(rec, els):
                                if e["kind"] == "ImplicitValueInitExpr":
                                    e = _mk("IntegerLiteral", [], value="0", type="int", file=st.get("file"), line=st.get("line"))
                                l0 = strip(kids(st)[0])
                                if l0["kind"] == "UnaryOperator" and l0.get("opcode") == "*":
                                    lhs = _mk("MemberExpr", [copy.deepcopy(kids(l0)[0])], name=fn_, isArrow=True, type=ft_,
                                              file=st.get("file"), line=st.get("line"), col=st.get("col"))
                                else:
                                    lhs = _mk("MemberExpr", [copy.deepcopy(kids(st)[0])], name=fn_, isArrow=False, type=ft_,
                                              file=st.get("file"), line=st.get("line"), col=st.get("col"))
                                out.append(_mk("BinaryOperator", [lhs, e], opcode="=", type=ft_, file=st.get("file"), line=st.get("line"),
                                               col=st.get("col")))
                            n += 1
                            continue
                out.append(st)
            blk["inner"] = out
    return n


def ternary_returns_to_if(model, known):
    """`return c ? A : B;` where an arm calls a helper that could be inlined: `if (c) return A; else return B;` (the helper's
    body is then spliced into the arm)."""
    n = 0
    for f in model.funcs.values():
        rel = model.rel(f.file) or ""
        if not rel.startswith(("src/", "include/")) or f.body is None:
            continue
        for blk in walk(f.body):
            if blk["kind"] != "CompoundStmt":
                continue
            st = blk.get("inner") or []
            for i, s_ in enumerate(st):
                if s_["kind"] != "ReturnStmt" or not kids(s_):
                    continue
                e = strip(kids(s_)[0], casts=True)
                if e["kind"] != "ConditionalOperator" or not _pure_expr(kids(e)[0]):
                    continue
                def helper_call(arm):
                    for y in walk(arm):
                        if y["kind"] == "CallExpr" and callee_ref(y):
                            g = model.funcs.get(model.resolve(f.unit, callee_ref(y)))
                            if g is not None and g.static and g.name not in known:
                                return True
                    return False
                if not (helper_call(kids(e)[1]) or helper_call(kids(e)[2])):
                    continue
                def ret(v_):
                    r_ = dict(s_)
                    r_["inner"] = [v_]
                    return _mk("CompoundStmt", [r_], file=s_.get("file"), line=s_.get("line"))
                st[i] = _mk("IfStmt", [kids(e)[0], ret(kids(e)[1]), ret(kids(e)[2])], file=s_.get("file"), line=s_.get("line"), col=s_.get("col"))
                n += 1
    return n


def index_cursor_reads(model):
    """`T *p = E; a = *p++; b = *p++; c = *p;` - a cursor that is only ever stepped by the reads themselves, all of them plain
    statements of the block that declares it: the k-th read is p[k] of the initial p (the rules read subscripts)."""
    n = 0
    for f in model.funcs.values():
        rel = model.rel(f.file) or ""
        if not rel.startswith(("src/", "include/")) or f.body is None:
            continue
        for blk in walk(f.body):
            if blk["kind"] != "CompoundStmt":
                continue
            st = blk.get("inner") or []
            for i, d in enumerate(st):
                if d["kind"] != "DeclStmt":
                    continue
                for vd in kids(d):
                    if vd["kind"] != "VarDecl" or not kids(vd) or not (vd.get("type") or "").rstrip().endswith("*"):
                        continue
                    vid = vd.get("id")
                    refs_all = [x for x in walk(f.body) if x["kind"] == "DeclRefExpr" and x.get("ref", {}).get("id") == vid]
                    if not refs_all:
                        continue
                    plan = []          # (holder node, index in holder, k)
                    k = 0
                    ok = True
                    seen = 0
                    stepped = False
                    for s_ in st[i + 1:]:
                        here = [x for x in walk(s_) if x["kind"] == "DeclRefExpr" and x.get("ref", {}).get("id") == vid]
                        if not here:
                            continue
                        if any(y["kind"] in ("IfStmt", "ForStmt", "WhileStmt", "DoStmt", "SwitchStmt", "ConditionalOperator") or
                               (y["kind"] == "BinaryOperator" and y.get("opcode") in ("&&", "||")) for y in walk(s_)):
                            ok = False
                            break
                        # every reference in this statement must be *p++ or *p
                        for x in walk(s_):
                            ch = x.get("inner") or []
                            for j, c in enumerate(ch):
                                c0 = c
                                if c0["kind"] == "UnaryOperator" and c0.get("opcode") == "*":
                                    o = strip(kids(c0)[0], casts=False)
                                    while o["kind"] == "ParenExpr":
                                        o = kids(o)[0]
                                    if o["kind"] == "UnaryOperator" and o.get("opcode") == "++" and o.get("isPostfix"):
                                        t = strip(kids(o)[0], casts=False)
                                        if t["kind"] == "DeclRefExpr" and t["ref"].get("id") == vid:
                                            plan.append((x, j, k, t, c0))
                                            k += 1
                                            seen += 1
                                            stepped = True
                                            continue
                                    if o["kind"] in ("ImplicitCastExpr",) and kids(o) and kids(o)[0]["kind"] == "DeclRefExpr" and \
                                            kids(o)[0]["ref"].get("id") == vid:
                                        plan.append((x, j, k, kids(o)[0], c0))
                                        seen += 1
                                        continue
                                    if o["kind"] == "DeclRefExpr" and o["ref"].get("id") == vid:
                                        plan.append((x, j, k, o, c0))
                                        seen += 1
                                        continue
                        if seen != sum(1 for s2 in st[i + 1:st.index(s_) + 1] for x in walk(s2)
                                       if x["kind"] == "DeclRefExpr" and x.get("ref", {}).get("id") == vid):
                            ok = False
                            break
                    if not ok or not stepped or seen != len(refs_all):
                        continue
                    for holder, j, kk, ref, deref in plan:
                        idx = _mk("IntegerLiteral", [], value=str(kk), type="int", file=deref.get("file"), line=deref.get("line"))
                        base = _mk("ImplicitCastExpr", [copy.deepcopy(ref)], type=vd.get("type"), castKind="LValueToRValue",
                                   file=deref.get("file"), line=deref.get("line"))
                        holder["inner"][j] = _mk("ArraySubscriptExpr", [base, idx], type=deref.get("type"), file=deref.get("file"),
                                                 line=deref.get("line"), col=deref.get("col"))
                    n += 1
    return n


def forward_gotos_to_blocks(model):
    """A function with one label, placed as a statement of a block, and gotos that only appear as `if (c) goto L;` /
    `if (c) { A; goto L; }` statements of that same block in front of the label (the common-exit idiom):
    `if (c) { A; goto L; } X; L: R`  becomes  `if (c) { A } else { X }  R`."""
    n = 0
    for f in model.funcs.values():
        rel = model.rel(f.file) or ""
        if not rel.startswith(("src/", "include/")) or f.body is None:
            continue
        labels = [x for x in walk(f.body) if x["kind"] == "LabelStmt"]
        gotos = [x for x in walk(f.body) if x["kind"] == "GotoStmt"]
        if len(labels) != 1 or not gotos:
            continue
        lab = labels[0]
        blk = None
        for b in walk(f.body):
            if b["kind"] == "CompoundStmt" and any(c is lab for c in kids(b)):
                blk = b
        if blk is None:
            continue
        st = list(kids(blk))
        j = [i for i, c in enumerate(st) if c is lab][0]

        def ends_in_goto(br):
            body = list(kids(br)) if br["kind"] == "CompoundStmt" else [br]
            return bool(body) and body[-1]["kind"] == "GotoStmt" and not any(y["kind"] == "GotoStmt" for b_ in body[:-1] for y in walk(b_))
        # every goto must be the tail of the then-branch of an else-less if that is a statement of this block before the label
        sites = [i for i in range(j) if st[i]["kind"] == "IfStmt" and len(kids(st[i])) == 2 and ends_in_goto(kids(st[i])[1])]
        covered = sum(1 for i in sites for y in walk(st[i]) if y["kind"] == "GotoStmt")
        if covered != len(gotos):
            continue
        rest_after = st[j + 1:]
        tail = list(st[:j])
        for i in reversed(sites):
            s_ = tail[i]
            br = kids(s_)[1]
            body = (list(kids(br)) if br["kind"] == "CompoundStmt" else [br])[:-1]
            els = tail[i + 1:]
            new_if = _mk("IfStmt", [kids(s_)[0], _mk("CompoundStmt", body, file=s_.get("file"), line=s_.get("line"))] +
                         ([_mk("CompoundStmt", els, file=s_.get("file"), line=s_.get("line"))] if els else []),
                         file=s_.get("file"), line=s_.get("line"), col=s_.get("col"))
            tail = tail[:i] + [new_if]
        inner = list(kids(lab))
        blk["inner"] = tail + inner + rest_after
        n += 1
    return n


def lower_switches(model):
    n = 0
    for f in model.funcs.values():
        rel = model.rel(f.file) or ""
        if not rel.startswith(("src/", "include/")):
            continue
        changed = True
        while changed:
            changed = False
            for x in walk(f.body):
                ch = x.get("inner") or []
                for i, c in enumerate(ch):
                    if c["kind"] == "SwitchStmt":
                        low = _lower_switch(c)
                        if low is not None:
                            ch[i] = low
                            n += 1
                            changed = True
                            break
                if changed:
                    break
    return n


# ---------------------------------------------------------------------------------------------------------------
# clean-up passes on functions that received inlined code

_ENUMERATORS = {}


def _const_value(n):
    n0 = strip(n, casts=True)
    if n0["kind"] == "IntegerLiteral":
        return int(n0["value"])
    if n0["kind"] == "CXXBoolLiteralExpr":
        return 1 if n0.get("value") else 0
    if n0["kind"] == "DeclRefExpr" and n0.get("ref", {}).get("kind") == "EnumConstantDecl":
        return _ENUMERATORS.get(n0["ref"].get("name"))
    return None


def _tails(stmt):
    """statements in tail position of stmt (last executed on each path), or None if a path has none / loops interfere"""
    k = stmt["kind"]
    if k == "CompoundStmt":
        if not kids(stmt):
            return None
        return _tails(kids(stmt)[-1])
    if k == "IfStmt":
        ch = kids(stmt)
        if len(ch) < 3:
            return None
        a, b = _tails(ch[1]), _tails(ch[2])
        if a is None or b is None:
            return None
        return a + b
    if k in ("ForStmt", "WhileStmt", "DoStmt", "SwitchStmt", "ReturnStmt", "BreakStmt", "ContinueStmt", "GotoStmt"):
        return None
    return [stmt]


def _assign_const_to(stmt, vid):
    if stmt["kind"] == "BinaryOperator" and stmt.get("opcode") == "=":
        l = strip(kids(stmt)[0], casts=True)
        if l["kind"] == "DeclRefExpr" and l["ref"]["id"] == vid:
            return _const_value(kids(stmt)[1])
    return None


def _flag_test(cond, vids):
    """(var id, function const -> bool) for conditions R, !R, R == c, R != c over a flag variable"""
    c = strip(cond, casts=True)
    neg = False
    while c["kind"] == "UnaryOperator" and c.get("opcode") == "!":
        neg = not neg
        c = strip(kids(c)[0], casts=True)
    if c["kind"] == "DeclRefExpr" and c["ref"]["id"] in vids:
        return c["ref"]["id"], (lambda v, neg=neg: (v != 0) != neg)
    if c["kind"] == "BinaryOperator" and c.get("opcode") in ("==", "!="):
        a, b = strip(kids(c)[0], casts=True), strip(kids(c)[1], casts=True)
        for x, y in ((a, b), (b, a)):
            cv = _const_value(y)
            if x["kind"] == "DeclRefExpr" and x["ref"]["id"] in vids and cv is not None:
                eq = c["opcode"] == "=="
                return x["ref"]["id"], (lambda v, cv=cv, eq=eq, neg=neg: ((v == cv) == eq) != neg)
    return None


def _insert_after(root, target, new_stmts):
    for x in walk(root):
        ch = x.get("inner")
        if ch and x["kind"] == "CompoundStmt":
            for i, c in enumerate(ch):
                if c is target:
                    ch[i + 1:i + 1] = new_stmts
                    return True
    # target is a single-statement branch: wrap
    for x in walk(root):
        ch = x.get("inner")
        if ch:
            for i, c in enumerate(ch):
                if c is target:
                    ch[i] = _mk("CompoundStmt", [target] + new_stmts, file=target.get("file"), line=target.get("line"))
                    return True
    return False


def thread_flags(f):
    """A statement all of whose paths end in `R = constant`, followed (possibly after `T v = R;`) by `if (test of R or v)`:
    the if is moved into every tail, specialised for that constant."""
    changed = False
    # `R = c ? K1 : K2` in a statement position is the if / else of two constant assignments
    for blk in list(walk(f.body)):
        if blk["kind"] != "CompoundStmt":
            continue
        for i_, a_ in enumerate(blk["inner"]):
            if a_["kind"] == "BinaryOperator" and a_.get("opcode") == "=":
                l_ = strip(kids(a_)[0], casts=True)
                r_ = strip(kids(a_)[1], casts=True)
                if l_["kind"] == "DeclRefExpr" and r_["kind"] == "ConditionalOperator" and \
                        _const_value(kids(r_)[1]) is not None and _const_value(kids(r_)[2]) is not None and _pure_expr(kids(r_)[0]):
                    def asg(v_):
                        return _mk("CompoundStmt", [_mk("BinaryOperator", [copy.deepcopy(kids(a_)[0]), v_], opcode="=", type=a_.get("type"),
                                                        file=a_.get("file"), line=a_.get("line"), col=a_.get("col"))],
                                   file=a_.get("file"), line=a_.get("line"))
                    blk["inner"][i_] = _mk("IfStmt", [kids(r_)[0], asg(kids(r_)[1]), asg(kids(r_)[2])], file=a_.get("file"),
                                           line=a_.get("line"), col=a_.get("col"))
                    changed = True
    for blk in list(walk(f.body)):
        if blk["kind"] != "CompoundStmt":
            continue
        st = blk["inner"]
        i = 0
        while i < len(st) - 1:
            a = st[i]
            tails = _tails(a) if a["kind"] in ("IfStmt", "CompoundStmt") else None
            if not tails:
                i += 1
                continue
            # the flag variable: assigned a constant in every tail
            vids = None
            for t in tails:
                if t["kind"] == "BinaryOperator" and t.get("opcode") == "=":
                    l = strip(kids(t)[0], casts=True)
                    if l["kind"] == "DeclRefExpr" and _const_value(kids(t)[1]) is not None:
                        vids = {l["ref"]["id"]} if vids is None else (vids & {l["ref"]["id"]})
                        continue
                vids = set()
                break
            if not vids:
                i += 1
                continue
            rid = next(iter(vids))
            j = i + 1
            alias = set()
            if st[j]["kind"] == "DeclStmt" and len(kids(st[j])) == 1 and kids(kids(st[j])[0]):
                ini = strip(kids(kids(st[j])[0])[0], casts=True)
                if ini["kind"] == "DeclRefExpr" and ini["ref"]["id"] == rid:
                    alias.add(kids(st[j])[0]["id"])
                    j += 1
            if j >= len(st) or st[j]["kind"] != "IfStmt":
                i += 1
                continue
            ft = _flag_test(kids(st[j])[0], {rid} | alias)
            if ft is None:
                i += 1
                continue
            the_if = st[j]
            ok = True
            for t in tails:
                cv = _assign_const_to(t, rid)
                branch = kids(the_if)[1] if ft[1](cv) else (kids(the_if)[2] if len(kids(the_if)) > 2 else None)
                # an else-if chain over the same flag: keep selecting
                while branch is not None:
                    b0 = branch
                    if b0["kind"] == "CompoundStmt" and len(kids(b0)) == 1:
                        b0 = kids(b0)[0]
                    if b0["kind"] != "IfStmt":
                        break
                    ft2 = _flag_test(kids(b0)[0], {rid} | alias)
                    if ft2 is None:
                        break
                    branch = kids(b0)[1] if ft2[1](cv) else (kids(b0)[2] if len(kids(b0)) > 2 else None)
                if branch is None:
                    continue
                cp = _rename(branch, {})
                body = kids(cp) if cp["kind"] == "CompoundStmt" else [cp]
                # the alias declaration must be visible in the moved code: re-declare it in the tail
                pre = []
                if j == i + 2:
                    pre = [_rename(st[i + 1], {})] if False else []
                if not _insert_after(a, t, pre + body):
                    ok = False
            if ok:
                del st[j]
                changed = True
            i += 1
    return changed


def fold_pointer_null_tests(f):
    """`if (p != NULL) A else B` where p is the copy of an inlined helper's parameter that was given `&x` (never null) or a
    null constant, and is never assigned: keep the branch that is taken."""
    from .astutil import is_null_expr
    known = {}
    intval = {}
    for x in walk(f.body):
        if x["kind"] == "VarDecl" and kids(x) and str(x.get("id", "")).startswith("inl") and "*" in (x.get("type") or ""):
            ini = strip(kids(x)[0], casts=True)
            if ini["kind"] == "UnaryOperator" and ini.get("opcode") == "&":
                known[x["id"]] = True            # non-null
            elif is_null_expr(kids(x)[0]):
                known[x["id"]] = False
        elif x["kind"] == "VarDecl" and kids(x) and str(x.get("id", "")).startswith("inl") and \
                (x.get("type") or "").replace("const ", "").strip().startswith("enum ") and \
                _const_value(kids(x)[0]) is not None:
            intval[x["id"]] = _const_value(kids(x)[0])
        elif x["kind"] == "VarDecl" and kids(x) and str(x.get("id", "")).startswith("inl") and \
                (x.get("type") or "").replace("const ", "").strip() in ("bool", "_Bool", "int", "unsigned int"):
            # a flag parameter that was given a literal: the helper's tests of it are decided at this call
            ini = strip(kids(x)[0], casts=True)
            if ini["kind"] in ("IntegerLiteral", "CXXBoolLiteralExpr"):
                try:
                    intval[x["id"]] = int(ini.get("value", 0)) if not isinstance(ini.get("value"), bool) else int(ini["value"])
                except (TypeError, ValueError):
                    pass
    for x in walk(f.body):
        if x["kind"] in ("BinaryOperator", "CompoundAssignOperator") and x.get("opcode", "").endswith("=") and \
                x.get("opcode") not in ("==", "!=", "<=", ">="):
            t = strip(kids(x)[0], casts=True)
            if t["kind"] == "DeclRefExpr":
                known.pop(t["ref"].get("id"), None)
                intval.pop(t["ref"].get("id"), None)
        if x["kind"] == "UnaryOperator" and x.get("opcode") in ("++", "--", "&"):
            t = strip(kids(x)[0], casts=True)
            if t["kind"] == "DeclRefExpr":
                known.pop(t["ref"].get("id"), None)
                intval.pop(t["ref"].get("id"), None)
    if not known and not intval:
        return False

    def decide(c):
        c = strip(c, casts=True)
        if c["kind"] == "IntegerLiteral" and c.get("synthetic_const"):
            return int(c["value"]) != 0
        if c["kind"] == "DeclRefExpr" and c["ref"].get("id") in known:
            return known[c["ref"]["id"]]
        if c["kind"] == "DeclRefExpr" and c["ref"].get("id") in intval:
            return intval[c["ref"]["id"]] != 0
        if c["kind"] == "BinaryOperator" and c.get("opcode") in ("!=", "=="):
            a0, b0 = strip(kids(c)[0], casts=True), strip(kids(c)[1], casts=True)
            for u, v in ((a0, b0), (b0, a0)):
                if u["kind"] == "DeclRefExpr" and u["ref"].get("id") in intval and _const_value(v) is not None:
                    eq = intval[u["ref"]["id"]] == _const_value(v)
                    return eq if c["opcode"] == "==" else not eq
        if c["kind"] == "UnaryOperator" and c.get("opcode") == "!":
            v = decide(kids(c)[0])
            return None if v is None else not v
        if c["kind"] == "BinaryOperator" and c.get("opcode") in ("!=", "=="):
            a_, b_ = kids(c)
            for u, v in ((a_, b_), (b_, a_)):
                u0 = strip(u, casts=True)
                if u0["kind"] == "DeclRefExpr" and u0["ref"].get("id") in known and is_null_expr(v):
                    nonnull = known[u0["ref"]["id"]]
                    return nonnull if c["opcode"] == "!=" else not nonnull
        return None
    changed = False
    # a && b / a || b with one decided operand: the other operand decides (a pure decided operand has no effect to keep)
    again = True
    while again:
        again = False
        for x in walk(f.body):
            ch = x.get("inner")
            if not ch:
                continue
            for i, c in enumerate(ch):
                c0 = c
                par, pi = x, i
                while c0["kind"] in ("ParenExpr", "ImplicitCastExpr") and kids(c0):
                    par, pi = c0, 0
                    c0 = kids(c0)[0]
                if c0["kind"] == "BinaryOperator" and c0.get("opcode") in ("&&", "||"):
                    a_, b_ = kids(c0)
                    va, vb = decide(a_), decide(b_)
                    keep = None
                    if c0["opcode"] == "&&":
                        if va is True:
                            keep = b_
                        elif vb is True and _pure_expr(a_):
                            keep = a_
                        elif (va is False) or (vb is False and _pure_expr(a_)):
                            keep = _mk("IntegerLiteral", [], value="0", type="int", synthetic_const=True, file=c0.get("file"), line=c0.get("line"))
                    else:
                        if va is False:
                            keep = b_
                        elif vb is False and _pure_expr(a_):
                            keep = a_
                        elif (va is True) or (vb is True and _pure_expr(a_)):
                            keep = _mk("IntegerLiteral", [], value="1", type="int", synthetic_const=True, file=c0.get("file"), line=c0.get("line"))
                    if keep is not None:
                        par["inner"][pi] = keep
                        changed = True
                        again = True
                        break
            if again:
                break
    for x in walk(f.body):
        ch = x.get("inner")
        if not ch or x["kind"] != "CompoundStmt":
            continue
        out = []
        for c in ch:
            v = decide(kids(c)[0]) if c["kind"] == "IfStmt" else None
            if v is None:
                out.append(c)
                continue
            kc = kids(c)
            taken = kc[1] if v else (kc[2] if len(kc) > 2 else None)
            if taken is not None:
                # splice the statements of the taken branch into the block (identifiers are resolved by id, not by name)
                out.extend(kids(taken) if taken["kind"] == "CompoundStmt" else [taken])
            changed = True
        x["inner"] = out
    # a ternary on a decided flag: keep the arm that is taken
    for x in walk(f.body):
        ch = x.get("inner")
        if not ch:
            continue
        for i, c in enumerate(ch):
            c0 = c
            while c0["kind"] in ("ParenExpr", "ImplicitCastExpr", "CStyleCastExpr") and kids(c0):
                nxt = kids(c0)[0]
                if nxt["kind"] == "ConditionalOperator":
                    v = decide(kids(nxt)[0])
                    if v is not None:
                        c0["inner"] = [kids(nxt)[1] if v else kids(nxt)[2]]
                        changed = True
                        break
                c0 = nxt
            if c["kind"] == "ConditionalOperator":
                v = decide(kids(c)[0])
                if v is not None:
                    ch[i] = kids(c)[1] if v else kids(c)[2]
                    changed = True
    return changed


def _noop_assert(s_):
    """`do { sizeof(cond); } while (0)` - what a debug assertion expands to when it is compiled out"""
    if s_["kind"] != "DoStmt" or len(kids(s_)) != 2 or _const_value(kids(s_)[1]) != 0:
        return False
    b = kids(s_)[0]
    inner = kids(b) if b["kind"] == "CompoundStmt" else [b]
    return all(strip(x, casts=True)["kind"] in ("UnaryExprOrTypeTraitExpr", "NullStmt") for x in inner)


def restore_loop_conditions(f):
    """The inliner turns `while (helper(a)) B` into `for (;;) { <helper body>; if (!R) break; B }`.  Where the helper body is
    pure declarations followed by `if (A) R = K; else R = E;` (K a 0 / 1 literal, A and E pure) the loop gets its condition
    back: `while (<A, K, E combined with && / ||>) B`, with the helper's parameter copies substituted."""
    changed = False
    for x in walk(f.body):
        ch = x.get("inner") or []
        for i, lp in enumerate(ch):
            if lp["kind"] == "ForStmt":
                parts = kids(lp)
                if len(parts) != 5 or not (parts[0]["kind"] == "Null" and _is_true_const(parts[2]) and parts[3]["kind"] == "Null"):
                    continue
                body = parts[4]
            elif lp["kind"] == "WhileStmt" and _is_true_const(kids(lp)[0]):
                body = kids(lp)[1]
            else:
                continue
            if body["kind"] != "CompoundStmt":
                continue
            st = [s_ for s_ in kids(body)]
            # compiled-out debug assertions between the helper's declarations and its result are no-ops: leave them out
            lead = 0
            while lead < len(st) and (st[lead]["kind"] == "DeclStmt" or _noop_assert(st[lead])):
                lead += 1
            st = [s_ for j_, s_ in enumerate(st) if not (j_ < lead and _noop_assert(s_))]
            k = 0
            subst = {}           # id -> initialiser (pure) of a leading declaration
            flag_ids = set()
            while k < len(st) and st[k]["kind"] == "DeclStmt":
                okd = True
                for vd in kids(st[k]):
                    if vd["kind"] != "VarDecl":
                        okd = False
                    elif kids(vd):
                        if not _pure_expr(kids(vd)[0]):
                            okd = False
                        else:
                            subst[vd["id"]] = kids(vd)[0]
                    else:
                        flag_ids.add(vd["id"])
                if not okd:
                    break
                k += 1
            if k >= len(st) - 1:
                continue
            expr = None
            fid = None
            s0 = st[k]
            if s0["kind"] == "IfStmt" and len(kids(s0)) == 3:
                a_c = kids(s0)[0]
                def single_assign(b_):
                    b0 = b_
                    if b0["kind"] == "CompoundStmt" and len(kids(b0)) == 1:
                        b0 = kids(b0)[0]
                    if b0["kind"] == "BinaryOperator" and b0.get("opcode") == "=":
                        l_ = strip(kids(b0)[0], casts=True)
                        if l_["kind"] == "DeclRefExpr":
                            return l_["ref"]["id"], kids(b0)[1]
                    return None, None
                i1, v1 = single_assign(kids(s0)[1])
                i2, v2 = single_assign(kids(s0)[2])
                # A, then E only if A did not decide: the order and the number of evaluations are those of the statements
                if i1 is not None and i1 == i2 and i1 in flag_ids:
                    k1, k2 = _const_value(v1), _const_value(v2)
                    def mk(op, l_, r_):
                        return _mk("BinaryOperator", [l_, r_], opcode=op, type="int", file=s0.get("file"), line=s0.get("line"))
                    def par(e_):
                        return _mk("ParenExpr", [e_], type=e_.get("type"), file=s0.get("file"), line=s0.get("line"))
                    if k1 == 0:
                        expr = mk("&&", _negate(copy.deepcopy(a_c)), par(v2))
                    elif k1 == 1:
                        expr = mk("||", par(copy.deepcopy(a_c)), par(v2))
                    elif k2 == 0:
                        expr = mk("&&", par(copy.deepcopy(a_c)), par(v1))
                    elif k2 == 1:
                        expr = mk("||", _negate(copy.deepcopy(a_c)), par(v1))
                    fid = i1
            elif s0["kind"] == "BinaryOperator" and s0.get("opcode") == "=":
                l_ = strip(kids(s0)[0], casts=True)
                if l_["kind"] == "DeclRefExpr" and l_["ref"]["id"] in flag_ids:
                    expr, fid = kids(s0)[1], l_["ref"]["id"]
            if expr is None:
                continue
            g = st[k + 1]
            if not (g["kind"] == "IfStmt" and len(kids(g)) == 2 and _only_break(kids(g)[1])):
                continue
            gc = strip(kids(g)[0], casts=True)
            if not (gc["kind"] == "UnaryOperator" and gc.get("opcode") == "!" and
                    strip(kids(gc)[0], casts=True).get("ref", {}).get("id") == fid):
                continue
            rest = st[k + 2:]
            # the flag and the substituted copies must not be used in the rest of the body
            used_later = any(y["kind"] == "DeclRefExpr" and y.get("ref", {}).get("id") in (set(subst) | {fid}) for r_ in rest for y in walk(r_))
            cond = copy.deepcopy(expr)
            # substitute the leading declarations into the condition (repeat for chains)
            for _ in range(4):
                for holder in walk({"kind": "X", "inner": [cond]}):
                    chh = holder.get("inner") or []
                    for j, c_ in enumerate(chh):
                        if c_["kind"] == "DeclRefExpr" and c_.get("ref", {}).get("id") in subst:
                            chh[j] = _mk("ParenExpr", [copy.deepcopy(subst[c_["ref"]["id"]])], type=c_.get("type"))
                if cond["kind"] == "DeclRefExpr" and cond.get("ref", {}).get("id") in subst:
                    cond = copy.deepcopy(subst[cond["ref"]["id"]])
            if used_later:
                # keep the declarations for the rest of the body; they are pure, so evaluating them again there is the same
                nb_inner = st[:k] + rest
            else:
                nb_inner = rest
            nb = dict(body)
            nb["inner"] = nb_inner
            if any(y["kind"] == "DeclRefExpr" and y.get("ref", {}).get("id") == fid for r_ in nb_inner for y in walk(r_)):
                continue
            ch[i] = _mk("WhileStmt", [cond, nb], file=lp.get("file"), line=lp.get("line"), col=lp.get("col"))
            changed = True
    return changed


def drop_dead_initialisers(f):
    """`T v = constant; ...; v = E;` where nothing in between mentions v and the assignment is an unconditional statement of
    the same block: the initialiser is dead, v is defined by the assignment."""
    changed = False
    for blk in walk(f.body):
        if blk["kind"] != "CompoundStmt":
            continue
        st = blk.get("inner") or []
        for i, d in enumerate(st):
            if d["kind"] != "DeclStmt":
                continue
            for vd in kids(d):
                if vd["kind"] != "VarDecl" or not kids(vd) or _const_value(kids(vd)[0]) is None and \
                        strip(kids(vd)[0], casts=True)["kind"] != "FloatingLiteral":
                    continue
                vid = vd.get("id")
                for s_ in st[i + 1:]:
                    refs = _refs_to(s_, vid)
                    if not refs:
                        continue
                    if s_["kind"] == "BinaryOperator" and s_.get("opcode") == "=":
                        l = strip(kids(s_)[0], casts=True)
                        if l["kind"] == "DeclRefExpr" and l["ref"].get("id") == vid and not _refs_to(kids(s_)[1], vid):
                            vd["inner"] = []
                            vd.pop("init", None)
                            changed = True
                    break
    return changed


def collapse_pointer_aliases(f):
    """`T *p = q;` where p and q are copies of helper parameters (pointers) and neither is ever assigned: p is q."""
    assigned = set()
    for y in walk(f.body):
        t_ = None
        if y["kind"] in ("BinaryOperator", "CompoundAssignOperator") and y.get("opcode", "").endswith("=") and \
                y.get("opcode") not in ("==", "!=", "<=", ">="):
            t_ = strip(kids(y)[0], casts=True)
        elif y["kind"] == "UnaryOperator" and y.get("opcode") in ("++", "--", "&"):
            t_ = strip(kids(y)[0], casts=True)
        if t_ is not None and t_["kind"] == "DeclRefExpr":
            assigned.add(t_["ref"].get("id"))
    changed = False
    for x in list(walk(f.body)):
        if x["kind"] != "VarDecl" or not kids(x) or not str(x.get("id", "")).startswith("inl") or "*" not in (x.get("type") or ""):
            continue
        ini = strip(kids(x)[0], casts=True)
        if ini["kind"] != "DeclRefExpr" or not str(ini["ref"].get("id", "")).startswith("inl"):
            continue
        if x["id"] in assigned or ini["ref"]["id"] in assigned or x["id"] == ini["ref"]["id"]:
            continue
        for y in walk(f.body):
            if y["kind"] == "DeclRefExpr" and y["ref"].get("id") == x["id"]:
                y["ref"] = dict(ini["ref"])
                changed = True
        # the alias declaration itself is dead now
        for b_ in walk(f.body):
            if b_["kind"] == "CompoundStmt" and b_.get("inner"):
                b_["inner"] = [c for c in b_["inner"] if not (c["kind"] == "DeclStmt" and len(kids(c)) == 1 and kids(c)[0] is x)]
    return changed


def eliminate_out_pointers(f):
    """`T *p = &x;` where p is only ever used as `*p` : replace `*p` by x and drop p."""
    collapse_pointer_aliases(f)
    changed = False
    decls = {}
    for x in walk(f.body):
        if x["kind"] == "VarDecl" and kids(x) and str(x.get("id", "")).startswith("inl"):
            ini = strip(kids(x)[0], casts=True)
            if ini["kind"] == "UnaryOperator" and ini.get("opcode") == "&":
                tgt = strip(kids(ini)[0], casts=True)
                if tgt["kind"] == "DeclRefExpr":
                    decls[x["id"]] = tgt
                elif tgt["kind"] == "MemberExpr":
                    # &(q->f) / &(s.f): usable as 'q->f' as long as q itself is never assigned in the function
                    root = tgt
                    while root["kind"] == "MemberExpr":
                        root = strip(kids(root)[0], casts=True)
                    if root["kind"] == "DeclRefExpr":
                        rid_ = root["ref"].get("id")
                        assigned = False
                        for y in walk(f.body):
                            if y["kind"] in ("BinaryOperator", "CompoundAssignOperator") and y.get("opcode", "").endswith("=") and \
                                    y.get("opcode") not in ("==", "!=", "<=", ">="):
                                t_ = strip(kids(y)[0], casts=True)
                                if t_["kind"] == "DeclRefExpr" and t_["ref"].get("id") == rid_:
                                    assigned = True
                            if y["kind"] == "UnaryOperator" and y.get("opcode") in ("++", "--"):
                                t_ = strip(kids(y)[0], casts=True)
                                if t_["kind"] == "DeclRefExpr" and t_["ref"].get("id") == rid_:
                                    assigned = True
                        if not assigned:
                            decls[x["id"]] = tgt
    for pid, tgt in decls.items():
        derefs, others = [], 0
        arrows = []
        for x in walk(f.body):
            if x["kind"] == "UnaryOperator" and x.get("opcode") == "*":
                c = strip(kids(x)[0], casts=True)
                if c["kind"] == "DeclRefExpr" and c["ref"]["id"] == pid:
                    derefs.append(x)
            if x["kind"] == "MemberExpr" and x.get("isArrow"):
                c = kids(x)[0]
                while c["kind"] in ("ImplicitCastExpr", "ParenExpr"):
                    c = kids(c)[0]
                if c["kind"] == "DeclRefExpr" and c["ref"]["id"] == pid:
                    arrows.append(x)
        # references inside unevaluated operands (sizeof) and in comparisons with NULL do not count: &x is never NULL
        ignore = set()
        for x in walk(f.body):
            if x["kind"] == "UnaryExprOrTypeTraitExpr":
                ignore |= {id(y) for y in walk(x)}
            if x["kind"] == "BinaryOperator" and x.get("opcode") in ("!=", "=="):
                a_, b_ = strip(kids(x)[0], casts=True), strip(kids(x)[1], casts=True)
                for u, v in ((a_, b_), (b_, a_)):
                    if u["kind"] == "DeclRefExpr" and u["ref"].get("id") == pid and v["kind"] == "IntegerLiteral":
                        ignore.add(id(u))
        nrefs = sum(1 for x in walk(f.body) if x["kind"] == "DeclRefExpr" and x["ref"].get("id") == pid and id(x) not in ignore)
        counted = sum(1 for d_ in derefs if not any(id(y) in ignore for y in walk(d_) if y["kind"] == "DeclRefExpr" and y["ref"].get("id") == pid)) + \
            sum(1 for a_ in arrows if not any(id(y) in ignore for y in walk(a_) if y["kind"] == "DeclRefExpr" and y["ref"].get("id") == pid))
        if nrefs != counted or not (derefs or arrows):
            continue
        for d in derefs:
            for k_ in list(d.keys()):
                del d[k_]
            d.update(copy.deepcopy(tgt))
        for a_ in arrows:
            a_["isArrow"] = False            # p->f with p == &x  is  x.f
            a_["inner"] = [copy.deepcopy(tgt)]
        # the pointer itself is dead now: drop its declaration (and the assertions about it)
        for x in walk(f.body):
            ch = x.get("inner")
            if not ch or x["kind"] != "CompoundStmt":
                continue
            keep = []
            for c in ch:
                if c["kind"] == "DeclStmt" and any(v.get("id") == pid for v in kids(c)):
                    continue
                if any(y["kind"] == "DeclRefExpr" and y["ref"].get("id") == pid for y in walk(c)) and \
                        c["kind"] in ("DoStmt", "ParenExpr", "ConditionalOperator", "CStyleCastExpr"):
                    continue
                keep.append(c)
            x["inner"] = keep
        changed = True
    return changed


def propagate_copies(f):
    """Inside one statement list: after `x = e;` (x a plain local whose address is not taken, e free of calls and of
    variables assigned later in the list) later reads of x in the same list are replaced by e, up to the next assignment
    of x.  Only for variables that the inliner introduced or that receive a value from inlined code."""
    changed = False
    addr = set()
    for x in walk(f.body):
        if x["kind"] == "UnaryOperator" and x.get("opcode") == "&":
            t = strip(kids(x)[0], casts=True)
            if t["kind"] == "DeclRefExpr":
                addr.add(t["ref"]["id"])

    def assigned_ids(n):
        out = set()
        for y in walk(n):
            t = None
            if y["kind"] in ("BinaryOperator", "CompoundAssignOperator") and (y.get("opcode") == "=" or y["kind"] == "CompoundAssignOperator"):
                t = strip(kids(y)[0], casts=True)
            elif y["kind"] == "UnaryOperator" and y.get("opcode") in ("++", "--"):
                t = strip(kids(y)[0], casts=True)
            if t is not None and t["kind"] == "DeclRefExpr":
                out.add(t["ref"]["id"])
        return out
    for blk in walk(f.body):
        if blk["kind"] != "CompoundStmt":
            continue
        st = kids(blk)
        for i, s_ in enumerate(st):
            if not (s_["kind"] == "BinaryOperator" and s_.get("opcode") == "="):
                continue
            l = strip(kids(s_)[0], casts=True)
            if l["kind"] != "DeclRefExpr" or l["ref"].get("kind") not in ("VarDecl",) or l["ref"]["id"] in addr:
                continue
            rhs = kids(s_)[1]
            r0 = strip(rhs, casts=True)
            if r0["kind"] != "DeclRefExpr" or not str(r0["ref"].get("id", "")).startswith("inl"):
                continue            # only copies out of inlined code
            vid = l["ref"]["id"]
            src_ids = {r0["ref"]["id"]}
            for later in st[i + 1:]:
                if vid in assigned_ids(later) or (src_ids & assigned_ids(later)):
                    break
                for y in walk(later):
                    if y["kind"] == "DeclRefExpr" and y["ref"].get("id") == vid:
                        y["ref"] = dict(r0["ref"])
                        y["type"] = r0.get("type", y.get("type"))
                        changed = True
    return changed


def _cond_key(c):
    """canonical text of a condition that only reads plain locals/parameters and literals, else None"""
    ids = []
    for x in walk(c):
        k = x["kind"]
        if k in ("CallExpr", "MemberExpr", "ArraySubscriptExpr", "CompoundAssignOperator", "UnaryExprOrTypeTraitExpr"):
            return None
        if k == "UnaryOperator" and x.get("opcode") in ("*", "++", "--", "&"):
            return None
        if k == "BinaryOperator" and x.get("opcode") in ("=", ","):
            return None
        if k == "DeclRefExpr":
            if x["ref"].get("kind") not in ("VarDecl", "ParmVarDecl"):
                return None
            ids.append(x["ref"]["id"])
    from .astutil import render
    return render(strip(c, casts=True)), tuple(ids)


def _assigned_ids(n):
    out = set()
    for y in walk(n):
        t = None
        if y["kind"] in ("BinaryOperator", "CompoundAssignOperator") and (y.get("opcode") == "=" or y["kind"] == "CompoundAssignOperator"):
            t = strip(kids(y)[0], casts=True)
        elif y["kind"] == "UnaryOperator" and y.get("opcode") in ("++", "--"):
            t = strip(kids(y)[0], casts=True)
        elif y["kind"] == "UnaryOperator" and y.get("opcode") == "&":
            t = strip(kids(y)[0], casts=True)          # address taken: may be written through the pointer
        if t is not None and t["kind"] == "DeclRefExpr":
            out.add(t["ref"]["id"])
    return out


def fuse_repeated_tests(f):
    """if (c) A else B;  S...;  if (c) C else D   with c over locals that nothing in between assigns
       ->  if (c) { A; S...; C } else { B; S...; D }"""
    changed = False
    for blk in list(walk(f.body)):
        if blk["kind"] != "CompoundStmt":
            continue
        st = blk["inner"]
        i = 0
        while i < len(st):
            a = st[i]
            if a["kind"] != "IfStmt":
                i += 1
                continue
            ka = _cond_key(kids(a)[0])
            if ka is None or _contains_return(a):
                i += 1
                continue
            j = None
            for jj in range(i + 1, min(len(st), i + 8)):
                b = st[jj]
                if b["kind"] == "IfStmt" and _cond_key(kids(b)[0]) == ka:
                    j = jj
                    break
                if b["kind"] in ("ReturnStmt", "ForStmt", "WhileStmt", "DoStmt") and b["kind"] != "DoStmt":
                    break
            if j is None:
                i += 1
                continue
            between = st[i + 1:j]
            touched_ids = set()
            for n_ in [a] + between:
                touched_ids |= _assigned_ids(n_)
            if touched_ids & set(ka[1]) or any(_contains_return(x) for x in between):
                i += 1
                continue
            b = st[j]
            ach, bch = kids(a), kids(b)

            def block(n_):
                if n_ is None:
                    return []
                return list(kids(n_)) if n_["kind"] == "CompoundStmt" else [n_]
            then_ = block(ach[1]) + [_rename(x, {}) for x in between] + block(bch[1])
            else_ = block(ach[2] if len(ach) > 2 else None) + between + block(bch[2] if len(bch) > 2 else None)
            a["inner"] = [ach[0], _mk("CompoundStmt", then_, file=a.get("file"), line=a.get("line")),
                          _mk("CompoundStmt", else_, file=a.get("file"), line=a.get("line"))]
            del st[i + 1:j + 1]
            changed = True
        # continue scanning
    return changed


_FLIP = {"<": ">=", "<=": ">", ">": "<=", ">=": "<", "==": "!=", "!=": "=="}


def _negate(c):
    """syntactic negation of a condition, flipping comparisons and removing double negation"""
    c0 = c
    while c0["kind"] in ("ParenExpr",):
        c0 = kids(c0)[0]
    if c0["kind"] == "UnaryOperator" and c0.get("opcode") == "!":
        return kids(c0)[0]
    if c0["kind"] == "BinaryOperator" and c0.get("opcode") in _FLIP:
        n = dict(c0)
        n["opcode"] = _FLIP[c0["opcode"]]
        return n
    return _mk("UnaryOperator", [c0], opcode="!", type="int", file=c.get("file"), line=c.get("line"), col=c.get("col"))


def _is_true_const(n):
    if n is None or n["kind"] == "Null":
        return True
    v = _const_value(n)
    return v is not None and v != 0


def _only_break(stmt):
    if stmt["kind"] == "BreakStmt":
        return True
    if stmt["kind"] == "CompoundStmt":
        body = [x for x in kids(stmt) if x["kind"] != "NullStmt"]
        return len(body) == 1 and body[0]["kind"] == "BreakStmt"
    return False


def guards_to_loop_condition(model):
    """for (;;) { if (A) break; if (B) break; REST }   ->   while (!A && !B) { REST }   (guards evaluated in the same order,
    with the same short-circuit)"""
    n = 0
    for f in model.funcs.values():
        rel = model.rel(f.file) or ""
        if not rel.startswith(("src/", "include/")):
            continue
        for x in walk(f.body):
            ch = x.get("inner") or []
            for i, lp in enumerate(ch):
                if lp["kind"] == "ForStmt":
                    parts = kids(lp)
                    if len(parts) != 5:
                        continue
                    body = parts[4]
                    endless = parts[0]["kind"] == "Null" and _is_true_const(parts[2]) and parts[3]["kind"] == "Null"
                    own = None if _is_true_const(parts[2]) else parts[2]
                elif lp["kind"] == "WhileStmt":
                    body = kids(lp)[1]
                    endless = _is_true_const(kids(lp)[0])
                    own = None if endless else kids(lp)[0]
                else:
                    continue
                if body["kind"] != "CompoundStmt":
                    continue
                st = kids(body)
                # leading declarations that the guards need stay in the body only if no guard uses them: keep it simple
                # and accept guards only at the very start, or after declarations whose initialisers are pure and which we
                # can substitute into the guard
                guards = []
                k = 0
                while k < len(st) and st[k]["kind"] == "IfStmt" and len(kids(st[k])) == 2 and _only_break(kids(st[k])[1]):
                    guards.append(kids(st[k])[0])
                    k += 1
                if not guards or not endless:
                    continue            # loops with a condition of their own keep their break guards
                cond = own
                for g in guards:
                    ng = _negate(g)
                    cond = ng if cond is None else _mk("BinaryOperator", [cond, ng], opcode="&&", type="int",
                                                       file=lp.get("file"), line=lp.get("line"))
                nb = dict(body)
                nb["inner"] = st[k:]
                if lp["kind"] == "ForStmt" and not endless:
                    nl = dict(lp)
                    nl["inner"] = [parts[0], parts[1], cond, parts[3], nb]
                    ch[i] = nl
                else:
                    ch[i] = _mk("WhileStmt", [cond, nb], file=lp.get("file"), line=lp.get("line"), col=lp.get("col"))
                n += 1
    return n


def _only_continue(stmt):
    if stmt["kind"] == "ContinueStmt":
        return True
    if stmt["kind"] == "CompoundStmt":
        body = [x for x in kids(stmt) if x["kind"] != "NullStmt"]
        return len(body) == 1 and body[0]["kind"] == "ContinueStmt"
    return False


def continue_guards_to_blocks(model):
    """loop body { A; if (c) continue; REST }  ->  { A; if (!c) { REST } }"""
    n = 0
    for f in model.funcs.values():
        rel = model.rel(f.file) or ""
        if not rel.startswith(("src/", "include/")):
            continue
        for lp in walk(f.body):
            if lp["kind"] not in ("ForStmt", "WhileStmt"):
                continue
            body = kids(lp)[-1]
            if body["kind"] != "CompoundStmt":
                continue
            changed = True
            while changed:
                changed = False
                st = body["inner"]
                for i, s_ in enumerate(st):
                    if s_["kind"] == "IfStmt" and len(kids(s_)) == 2 and _only_continue(kids(s_)[1]) and i + 1 < len(st):
                        rest = st[i + 1:]
                        if any(x["kind"] == "ContinueStmt" for r_ in rest for x in walk(r_)):
                            # later continues stay valid inside the new block
                            pass
                        st[i:] = [_mk("IfStmt", [_negate(kids(s_)[0]), _mk("CompoundStmt", rest, file=s_.get("file"), line=s_.get("line"))],
                                      file=s_.get("file"), line=s_.get("line"), col=s_.get("col"))]
                        body = kids(st[i])[1]
                        n += 1
                        changed = True
                        break
    return n


def unroll_const_loops(body, max_rounds=16):
    """A copy of `body` in which every `for (T i = c0; i < c1; i++)` with literal bounds (and a body that does not assign i,
    break or continue) is replaced by its rounds with i substituted, and subscripts of constant local arrays with a
    literal index (`const T a[] = {x, y, z}; ... a[1]`) by the initialiser.  Used by rules that evaluate small predicates."""
    from .astutil import int_value
    body = copy.deepcopy(body)

    def subst(n, vid, k):
        for x in walk(n):
            ch = x.get("inner")
            if not ch:
                continue
            for i_, c in enumerate(ch):
                c0 = c
                if c0["kind"] == "DeclRefExpr" and c0["ref"].get("id") == vid:
                    ch[i_] = {"kind": "IntegerLiteral", "value": str(k), "type": c0.get("type", "int"), "inner": []}
                elif c0["kind"] == "ImplicitCastExpr" and kids(c0) and kids(c0)[0]["kind"] == "DeclRefExpr" and kids(c0)[0]["ref"].get("id") == vid:
                    ch[i_] = {"kind": "IntegerLiteral", "value": str(k), "type": c0.get("type", "int"), "inner": []}

    def unroll(n):
        ch = n.get("inner")
        if not ch:
            return
        out = []
        for c in ch:
            unroll(c)
            if c["kind"] == "ForStmt":
                k_ = kids(c)
                init, cond, inc, b_ = k_[0], k_[2], k_[3], k_[4]
                vds = [d for d in walk(init) if d["kind"] == "VarDecl" and kids(d)]
                c0 = strip(cond, casts=True) if cond.get("kind") != "Null" else None
                i0 = strip(inc, casts=True) if inc.get("kind") != "Null" else None
                if len(vds) == 1 and c0 is not None and c0["kind"] == "BinaryOperator" and c0.get("opcode") in ("<", "<=") and i0 is not None \
                        and i0["kind"] == "UnaryOperator" and i0.get("opcode") == "++":
                    v = vds[0]
                    lo = int_value(strip(kids(v)[0], casts=True))
                    hi = int_value(strip(kids(c0)[1], casts=True))
                    lhs = strip(kids(c0)[0], casts=True)
                    stepv = strip(kids(i0)[0], casts=True)
                    writes = any(y["kind"] in ("BinaryOperator", "CompoundAssignOperator", "UnaryOperator") and
                                 y.get("opcode") in ("=", "+=", "-=", "++", "--") and
                                 strip(kids(y)[0], casts=True).get("ref", {}).get("id") == v["id"] for y in walk(b_))
                    jumps = any(y["kind"] in ("BreakStmt", "ContinueStmt") for y in walk(b_))
                    if lo is not None and hi is not None and lhs["kind"] == "DeclRefExpr" and lhs["ref"].get("id") == v["id"] and \
                            stepv["kind"] == "DeclRefExpr" and stepv["ref"].get("id") == v["id"] and not writes and not jumps:
                        last = hi if c0["opcode"] == "<=" else hi - 1
                        if 0 <= last - lo < max_rounds:
                            for k in range(lo, last + 1):
                                rb = _rename(b_, {})          # locals declared in the body are new objects in every round
                                holder = {"kind": "CompoundStmt", "inner": [rb]}
                                subst(holder, v["id"], k)
                                out.append(holder["inner"][0])
                            continue
            out.append(c)
        n["inner"] = out
    unroll(body)
    # constant local arrays indexed by literals
    arrays = {}
    for d in walk(body):
        if d["kind"] == "VarDecl" and kids(d) and kids(d)[0]["kind"] == "InitListExpr" and "[" in (d.get("type") or ""):
            arrays[d["id"]] = kids(kids(d)[0])
    if arrays:
        assigned = set()
        for y in walk(body):
            if y["kind"] in ("BinaryOperator", "CompoundAssignOperator") and y.get("opcode", "").endswith("=") and y.get("opcode") not in ("==", "!=", "<=", ">="):
                t = strip(kids(y)[0], casts=True)
                if t["kind"] == "ArraySubscriptExpr":
                    b0 = strip(kids(t)[0], casts=True)
                    if b0["kind"] == "DeclRefExpr":
                        assigned.add(b0["ref"].get("id"))
        for x in walk(body):
            ch = x.get("inner")
            if not ch:
                continue
            for i_, c in enumerate(ch):
                c0 = c
                while c0["kind"] in ("ImplicitCastExpr", "ParenExpr") and kids(c0):
                    c0 = kids(c0)[0]
                if c0["kind"] == "ArraySubscriptExpr":
                    b0 = strip(kids(c0)[0], casts=True)
                    ix = int_value(strip(kids(c0)[1], casts=True))
                    if b0["kind"] == "DeclRefExpr" and b0["ref"].get("id") in arrays and b0["ref"]["id"] not in assigned \
                            and ix is not None and 0 <= ix < len(arrays[b0["ref"]["id"]]):
                        ch[i_] = copy.deepcopy(arrays[b0["ref"]["id"]][ix])
    return body


# ---------------------------------------------------------------------------------------------------------------
def _is_ptr_type(t):
    t = (t or "").strip()
    return t.endswith("*") or bool(re.search(r"\*\s*const$", t))


def split_chained_assignments(model):
    """`a = b = c;` as a statement of a block, a and b side-effect-free lvalues: `b = c; a = c;` when c is free of calls,
    does not read b and a, b have the same type; else `b = c; a = b;`.  Longer chains likewise, innermost store first."""
    from .astutil import render as _render
    n = 0
    for f in model.funcs.values():
        rel = model.rel(f.file) or ""
        if not rel.startswith(("src/", "include/")) or f.body is None:
            continue
        for blk in walk(f.body):
            if blk["kind"] != "CompoundStmt":
                continue
            st = blk.get("inner") or []
            i = 0
            while i < len(st):
                s_ = st[i]
                i += 1
                if not (s_["kind"] == "BinaryOperator" and s_.get("opcode") == "="):
                    continue
                chain = []           # assignment nodes, outermost first
                cur = s_
                while True:
                    chain.append(cur)
                    r0 = kids(cur)[1]
                    while r0["kind"] in ("ParenExpr", "ImplicitCastExpr") and kids(r0):
                        r0 = kids(r0)[0]
                    if r0["kind"] == "BinaryOperator" and r0.get("opcode") == "=":
                        cur = r0
                    else:
                        break
                if len(chain) < 2 or not all(_pure_expr(kids(a)[0]) for a in chain):
                    continue
                c = kids(chain[-1])[1]
                lv = [kids(a)[0] for a in chain]
                ty = {(x.get("type") or "").replace("const ", "").strip() for x in lv}
                direct = len(ty) == 1 and _pure_expr(c) and not any(_render(strip(x, casts=True)) in _render(c) for x in lv)
                out = [chain[-1]]
                for k in range(len(chain) - 2, -1, -1):
                    prev = lv[k + 1]
                    rhs = copy.deepcopy(c) if direct else _mk("ImplicitCastExpr", [copy.deepcopy(prev)], castKind="LValueToRValue",
                                                               type=prev.get("type"), file=prev.get("file"), line=prev.get("line"),
                                                               col=prev.get("col"))
                    o = dict(chain[k])
                    o["inner"] = [lv[k], rhs]
                    out.append(o)
                st[i - 1:i] = out
                i += len(out) - 1
                n += 1
    return n


def enumerators_in_order_tests(model, only=None):
    """An enumerator used as a bound (operand of <, <=, >, >=) is a number there: replace it by its value."""
    n = 0
    for f in (model.funcs.values() if only is None else [only]):
        rel = model.rel(f.file) or ""
        if not rel.startswith(("src/", "include/")) or f.body is None:
            continue
        for x in walk(f.body):
            if x["kind"] == "BinaryOperator" and x.get("opcode") in ("<", "<=", ">", ">="):
                ch = x["inner"]
                for i, c in enumerate(ch):
                    c0 = strip(c, casts=True)
                    if c0["kind"] == "DeclRefExpr" and c0.get("ref", {}).get("kind") == "EnumConstantDecl":
                        v = _ENUMERATORS.get(c0["ref"].get("name"))
                        if v is not None:
                            ch[i] = _mk("IntegerLiteral", [], value=str(v), type="int", file=c.get("file"), line=c.get("line"),
                                        col=c.get("col"))
                            n += 1
    return n


def for_refetch_to_while(model):
    """`for (T i = E; C; i = E) B` with the same E (a call: the next item is fetched) in the initialiser and the step and no
    `continue` in B is the loop-and-a-half `while (1) { T i = E; if (!C) break; B }`."""
    from .astutil import render as _render
    n = 0
    for f in model.funcs.values():
        rel = model.rel(f.file) or ""
        if not rel.startswith(("src/", "include/")) or f.body is None:
            continue
        for x in walk(f.body):
            ch = x.get("inner")
            if not ch:
                continue
            for i, lp in enumerate(ch):
                if lp["kind"] != "ForStmt" or len(kids(lp)) != 5:
                    continue
                init, _cv, cond, inc, body = kids(lp)
                if not init or init.get("kind") != "DeclStmt" or len(kids(init)) != 1 or not kids(kids(init)[0]) or \
                        not cond or not cond.get("kind") or not inc or not inc.get("kind"):
                    continue
                vd = kids(init)[0]
                e = kids(vd)[0]
                inc0 = strip(inc)
                if _pure_expr(e) or inc0["kind"] != "BinaryOperator" or inc0.get("opcode") != "=":
                    continue
                if not any(y["kind"] == "AtomicExpr" for y in walk(e)):
                    continue            # only atomic fetches: other fetching loops are read in their for form by the rules
                l = strip(kids(inc0)[0], casts=True)
                if l["kind"] != "DeclRefExpr" or l["ref"].get("id") != vd.get("id") or _render(kids(inc0)[1]) != _render(e):
                    continue

                def own_continue(nod):
                    if nod["kind"] in ("ForStmt", "WhileStmt", "DoStmt"):
                        return False
                    if nod["kind"] == "ContinueStmt":
                        return True
                    return any(own_continue(c) for c in kids(nod))
                if own_continue(body):
                    continue
                brk = _mk("IfStmt", [_not(cond), _mk("BreakStmt", [], file=lp.get("file"), line=lp.get("line"))],
                          file=lp.get("file"), line=lp.get("line"))
                old = list(kids(body)) if body["kind"] == "CompoundStmt" else [body]
                nb = _mk("CompoundStmt", [init, brk] + old, file=body.get("file"), line=body.get("line"))
                one = _mk("IntegerLiteral", [], value="1", type="int", file=lp.get("file"), line=lp.get("line"))
                ch[i] = _mk("WhileStmt", [one, nb], file=lp.get("file"), line=lp.get("line"), endline=lp.get("endline"))
                n += 1
    return n


def address_locals_to_lvalues(model):
    """`T *const p = &X;` (or a pointer that is never assigned) with X a member chain over variables that are never
    assigned, or a file-scope object: `*p` is X, `p->f` is X.f and p itself is &X (the same storage at every moment)."""
    n = 0
    for f in model.funcs.values():
        rel = model.rel(f.file) or ""
        if not rel.startswith(("src/", "include/")) or f.body is None:
            continue
        assigned = _assigned_ids(f.body)
        local_ids = {x.get("id") for x in walk(f.body) if x["kind"] == "VarDecl"} | {p_["id"] for p_ in f.params}
        parent = {}
        for x in walk(f.body):
            for c in x.get("inner") or []:
                parent[id(c)] = x
        for vd in [x for x in walk(f.body) if x["kind"] == "VarDecl" and kids(x) and _is_ptr_type(x.get("type"))]:
            if vd["id"] in assigned or vd.get("storageClass") == "static":
                continue
            ini = strip(kids(vd)[0])
            if ini["kind"] != "UnaryOperator" or ini.get("opcode") != "&":
                continue
            X = strip(kids(ini)[0])
            if X["kind"] not in ("MemberExpr", "DeclRefExpr") or not _pure_expr(X):
                continue
            roots = [y for y in walk(X) if y["kind"] == "DeclRefExpr"]
            if not roots or any(y["ref"].get("kind") not in ("VarDecl", "ParmVarDecl") for y in roots):
                continue
            if X["kind"] == "DeclRefExpr" and X["ref"].get("id") in local_ids:
                continue                 # the address of a local: an out-parameter idiom, handled elsewhere
            if any(y["ref"].get("id") in assigned and y["ref"].get("id") in local_ids for y in roots if y is not X):
                continue
            if X["kind"] == "MemberExpr" and any(y["ref"].get("id") in assigned for y in roots):
                continue
            if any(y["kind"] in ("ArraySubscriptExpr", "UnaryOperator") for y in walk(X)):
                continue
            uses = [y for y in walk(f.body) if y["kind"] == "DeclRefExpr" and y["ref"].get("id") == vd["id"]]
            if not uses:
                continue
            for u in uses:
                top = u
                a = parent.get(id(u))
                while a is not None and a["kind"] in ("ParenExpr", "ImplicitCastExpr"):
                    top = a
                    a = parent.get(id(a))
                if a is None:
                    continue
                if a["kind"] == "UnaryOperator" and a.get("opcode") == "*":
                    pa = parent.get(id(a))
                    if pa is None:
                        continue
                    for i_, c in enumerate(pa["inner"]):
                        if c is a:
                            pa["inner"][i_] = _mk("ParenExpr", [copy.deepcopy(X)], type=a.get("type"), file=a.get("file"),
                                                  line=a.get("line"), col=a.get("col"))
                elif a["kind"] == "MemberExpr" and a.get("isArrow") and kids(a)[0] is top:
                    a["isArrow"] = False
                    a["inner"] = [copy.deepcopy(X)]
                else:
                    for i_, c in enumerate(a["inner"]):
                        if c is top:
                            a["inner"][i_] = _mk("UnaryOperator", [copy.deepcopy(X)], opcode="&", type=vd.get("type"), file=u.get("file"),
                                                 line=u.get("line"), col=u.get("col"))
            # the pointer itself is dead now
            for b_ in walk(f.body):
                if b_["kind"] == "CompoundStmt" and b_.get("inner"):
                    b_["inner"] = [c for c in b_["inner"] if not (c["kind"] == "DeclStmt" and len(kids(c)) == 1 and kids(c)[0] is vd)]
            n += 1
    return n


def pointer_cursors_to_indexes(model):
    """Local pointers that only ever hold `B + e`, `&B[e]` or another such pointer (plus / minus an integer), for one
    pointer B that is never reassigned, walk the array B: each becomes an integer index, `*p` / `p->f` / `p - B` / `p < q`
    become `B[p_ix]` / `B[p_ix].f` / `p_ix` / `p_ix < q_ix`, and a pointer value that is passed on becomes `&B[p_ix]`
    (the rules and engines read subscripts)."""
    n = 0
    for f in list(model.funcs.values()):
        rel = model.rel(f.file) or ""
        if not rel.startswith(("src/", "include/")) or f.body is None:
            continue
        n += _cursor_pass(f)
    return n


def _cursor_pass(f):
    body = f.body
    parent = {}
    for x in walk(body):
        for i, c in enumerate(x.get("inner") or []):
            parent[id(c)] = (x, i)
    decls = {x["id"]: x for x in walk(body) if x["kind"] == "VarDecl" and x.get("id")}
    ptr_vars = {vid for vid, d in decls.items() if _is_ptr_type(d.get("type")) and d.get("storageClass") != "static"}
    for p in f.params:
        if _is_ptr_type(p.get("type")):
            ptr_vars.add(p["id"])
    if not ptr_vars:
        return 0

    def ancestor(n):
        p = parent.get(id(n))
        while p and p[0]["kind"] in ("ParenExpr", "ImplicitCastExpr"):
            n = p[0]
            p = parent.get(id(n))
        return (p[0] if p else None), n

    defs = {}           # vid -> [(kind, node)]
    addr = set()
    for x in walk(body):
        if x["kind"] != "DeclRefExpr" or x.get("ref", {}).get("id") not in ptr_vars:
            continue
        vid = x["ref"]["id"]
        a, ch = ancestor(x)
        if a is None:
            continue
        if a["kind"] == "UnaryOperator" and a.get("opcode") == "&":
            addr.add(vid)
        elif a["kind"] == "UnaryOperator" and a.get("opcode") in ("++", "--"):
            defs.setdefault(vid, []).append(("step", a))
        elif a["kind"] == "CompoundAssignOperator" and kids(a)[0] is ch:
            defs.setdefault(vid, []).append(("compound", a))
        elif a["kind"] == "BinaryOperator" and a.get("opcode") == "=" and kids(a)[0] is ch:
            defs.setdefault(vid, []).append(("assign", a))
    bases = {vid for vid in ptr_vars if vid not in defs and vid not in addr}
    cursors = {}        # vid -> base id

    def ref_id(e):
        e0 = strip(e)
        if e0["kind"] == "DeclRefExpr":
            return e0.get("ref", {}).get("id")
        return None

    def shape(e):
        """(base id, arithmetic?) of a pointer expression made of cursors / bases, else None"""
        e0 = strip(e)
        if e0["kind"] == "DeclRefExpr":
            vid = e0.get("ref", {}).get("id")
            if vid in cursors:
                return cursors[vid], False
            if vid in bases and vid not in maybe:
                return vid, False
            if vid in maybe:
                return ("?", vid), False
            return None
        if e0["kind"] == "BinaryOperator" and e0.get("opcode") in ("+", "-"):
            l, r = kids(e0)
            if _is_ptr_type(l.get("type")) and not _is_ptr_type(r.get("type")):
                s_ = shape(l)
                return (s_[0], True) if s_ else None
            if e0.get("opcode") == "+" and _is_ptr_type(r.get("type")) and not _is_ptr_type(l.get("type")):
                s_ = shape(r)
                return (s_[0], True) if s_ else None
            return None
        if e0["kind"] == "UnaryOperator" and e0.get("opcode") == "&":
            t = strip(kids(e0)[0])
            if t["kind"] == "ArraySubscriptExpr":
                s_ = shape(kids(t)[0])
                return (s_[0], True) if s_ else None
        return None

    # candidate cursors: local pointers whose every definition has a shape; resolve the bases to a fixpoint
    maybe = {vid for vid in ptr_vars if vid in decls and vid not in addr and (kids(decls[vid]) or vid in defs)}
    # a never-reassigned pointer is a cursor only if its initialiser does arithmetic on another one; else it is a base
    info = {}
    for _ in range(6):
        changed = False
        for vid in list(maybe):
            d = decls[vid]
            shapes = []
            ok = True
            arith = False
            if kids(d):
                s_ = shape(kids(d)[0])
                if s_ is None:
                    ok = False
                else:
                    shapes.append(s_)
            for kind, node in defs.get(vid, []):
                if kind == "assign":
                    s_ = shape(kids(node)[1])
                    if s_ is None:
                        ok = False
                    else:
                        shapes.append(s_)
                elif kind == "compound":
                    if node.get("opcode") not in ("+=", "-=") or _is_ptr_type(kids(node)[1].get("type")):
                        ok = False
                    arith = True
                else:
                    pa = parent.get(id(node))
                    if pa is None or pa[0]["kind"] not in ("CompoundStmt", "ForStmt"):
                        ok = False          # the value of p++ is used
                    arith = True
            if not ok or not shapes:
                maybe.discard(vid)
                changed = True
                continue
            info[vid] = (shapes, arith)
        if not changed:
            break
    # union the '?' references: solve bases
    for _ in range(8):
        changed = False
        for vid in list(maybe):
            shapes, arith = info[vid]
            bs = set()
            for b, ar in shapes:
                if isinstance(b, tuple):
                    if b[1] in cursors:
                        bs.add(cursors[b[1]])
                    elif b[1] not in maybe:
                        bs.add(None)
                else:
                    bs.add(b)
            bs.discard(vid)
            if None in bs or len(bs) > 1:
                maybe.discard(vid)
                cursors.pop(vid, None)
                changed = True
                continue
            if len(bs) == 1 and vid not in cursors:
                cursors[vid] = next(iter(bs))
                changed = True
        if not changed:
            break
    cursors = {v: b for v, b in cursors.items() if v in maybe}
    # a base must not itself be a cursor; a cursor needs arithmetic somewhere in its family
    def has_arith(vid, seen=()):
        shapes, arith = info[vid]
        if arith or any(ar for _b, ar in shapes):
            return True
        for b, _ar in shapes:
            if isinstance(b, tuple) and b[1] in cursors and b[1] not in seen and has_arith(b[1], seen + (vid,)):
                return True
        return False
    for _ in range(4):
        drop = {v for v in cursors if cursors[v] in cursors or not has_arith(v)}
        # a cursor whose definition mentions a dropped candidate
        for v in cursors:
            for b, _ar in info[v][0]:
                if isinstance(b, tuple) and b[1] not in cursors:
                    drop.add(v)
        if not drop:
            break
        for v in drop:
            cursors.pop(v, None)
    # index arithmetic is only the same as pointer arithmetic when cursor and base point to the same type
    def _pt(vid):
        d = decls.get(vid) or next((p_ for p_ in f.params if p_["id"] == vid), None)
        t = ((d or {}).get("type") or "").replace("const", "").replace(" ", "")
        return t
    for _ in range(4):
        bad = {v for v in cursors if _pt(v) != _pt(cursors[v])}
        bad |= {v for v in cursors for b, _ar in info[v][0] if isinstance(b, tuple) and b[1] not in cursors}
        if not bad:
            break
        for v in bad:
            cursors.pop(v, None)
    # a family over one base is a set of cursors only if one of them really moves (is assigned or stepped after its
    # initialiser); pointers computed once are left as they are
    for b in set(cursors.values()):
        fam = [v for v in cursors if cursors[v] == b]
        # ... by being assigned another cursor of the family (hole = child): plain stepping walkers (p++, p += k) are
        # induction variables, which the rules read as they are
        def hops(v):
            return any(kind == "assign" and any(y["kind"] == "DeclRefExpr" and y.get("ref", {}).get("id") in fam and
                                                y["ref"]["id"] != v for y in walk(kids(node)[1]))
                       for kind, node in defs.get(v, []))
        if not any(hops(v) for v in fam):
            for v in fam:
                cursors.pop(v, None)
    if not cursors:
        return 0
    for v in cursors:
        for b, _ar in info[v][0]:
            if isinstance(b, tuple) and b[1] not in cursors:
                return 0
    ITYPE = "int64_t"
    ixid = {v: "ix:%s" % v for v in cursors}

    def lit(k, like):
        return _mk("IntegerLiteral", [], value=str(k), type="int", file=like.get("file"), line=like.get("line"), col=like.get("col"))

    def var_ref(vid, like):
        d = decls.get(vid)
        if d is None:
            d = next(p for p in f.params if p["id"] == vid)
            kind = "ParmVarDecl"
        else:
            kind = "VarDecl"
        r = _mk("DeclRefExpr", [], ref={"id": vid, "kind": kind, "name": d.get("name"), "type": d.get("type")},
                type=d.get("type"), file=like.get("file"), line=like.get("line"), col=like.get("col"))
        return _mk("ImplicitCastExpr", [r], castKind="LValueToRValue", type=d.get("type"), file=like.get("file"),
                   line=like.get("line"), col=like.get("col"))

    def ix_ref(vid, like, rvalue=True):
        name = "%s_ix" % decls[vid].get("name")
        r = _mk("DeclRefExpr", [], ref={"id": ixid[vid], "kind": "VarDecl", "name": name, "type": ITYPE}, type=ITYPE, dtype="long",
                file=like.get("file"), line=like.get("line"), col=like.get("col"))
        if not rvalue:
            return r
        return _mk("ImplicitCastExpr", [r], castKind="LValueToRValue", type=ITYPE, dtype="long", file=like.get("file"),
                   line=like.get("line"), col=like.get("col"))

    def binop(op, l, r, like, type_=ITYPE):
        return _mk("BinaryOperator", [l, r], opcode=op, type=type_, file=like.get("file"), line=like.get("line"), col=like.get("col"))

    def is_zero(n):
        return n["kind"] == "IntegerLiteral" and n.get("value") == "0"

    def as_index(e):
        """(base, index expression) of a pointer expression over cursors and their bases"""
        e0 = strip(e)
        if e0["kind"] == "DeclRefExpr":
            vid = e0.get("ref", {}).get("id")
            if vid in cursors:
                return cursors[vid], ix_ref(vid, e0)
            if vid in set(cursors.values()):
                return vid, lit(0, e0)
            return None
        if e0["kind"] == "BinaryOperator" and e0.get("opcode") in ("+", "-"):
            l, r = kids(e0)
            if _is_ptr_type(l.get("type")) and not _is_ptr_type(r.get("type")):
                a = as_index(l)
                if a is None:
                    return None
                rr = conv(copy.deepcopy(r))
                if e0.get("opcode") == "+" and is_zero(a[1]):
                    return a[0], rr
                return a[0], binop(e0["opcode"], a[1], _mk("ParenExpr", [rr], type=rr.get("type")), e0)
            if e0.get("opcode") == "+" and _is_ptr_type(r.get("type")) and not _is_ptr_type(l.get("type")):
                a = as_index(r)
                if a is None:
                    return None
                ll = conv(copy.deepcopy(l))
                if is_zero(a[1]):
                    return a[0], ll
                return a[0], binop("+", _mk("ParenExpr", [ll], type=ll.get("type")), a[1], e0)
            return None
        if e0["kind"] == "UnaryOperator" and e0.get("opcode") == "&":
            t = strip(kids(e0)[0])
            if t["kind"] == "ArraySubscriptExpr":
                a = as_index(kids(t)[0])
                if a is None:
                    return None
                ii = conv(copy.deepcopy(kids(t)[1]))
                if is_zero(a[1]):
                    return a[0], ii
                return a[0], binop("+", a[1], _mk("ParenExpr", [ii], type=ii.get("type")), e0)
        return None

    def elem_type(bid):
        d = decls.get(bid) or next(p for p in f.params if p["id"] == bid)
        t = (d.get("type") or "").strip()
        t = re.sub(r"\*\s*(const)?$", "", t).strip()
        return t

    def sub(bid, ix, like):
        return _mk("ArraySubscriptExpr", [var_ref(bid, like), ix], type=elem_type(bid), file=like.get("file"), line=like.get("line"),
                   col=like.get("col"))

    count = [0]

    def conv(n):
        k = n["kind"]
        ch = n.get("inner")
        if k == "UnaryOperator" and n.get("opcode") == "*":
            a = as_index(kids(n)[0])
            if a is not None:
                count[0] += 1
                return sub(a[0], a[1], n)
        if k == "MemberExpr" and n.get("isArrow"):
            a = as_index(kids(n)[0])
            if a is not None:
                count[0] += 1
                m2 = dict(n)
                m2["isArrow"] = False
                m2["inner"] = [sub(a[0], a[1], n)]
                return m2
        if k == "ArraySubscriptExpr":
            a = as_index(kids(n)[0])
            if a is not None:
                count[0] += 1
                ii = conv(kids(n)[1])
                ix = ii if is_zero(a[1]) else binop("+", a[1], _mk("ParenExpr", [ii], type=ii.get("type")), n)
                return sub(a[0], ix, n)
        if k == "BinaryOperator" and n.get("opcode") in ("-", "<", "<=", ">", ">=", "==", "!="):
            l, r = kids(n)
            if _is_ptr_type(l.get("type")) and _is_ptr_type(r.get("type")):
                a, b = as_index(l), as_index(r)
                if a is not None and b is not None and a[0] == b[0]:
                    count[0] += 1
                    if n["opcode"] == "-" and is_zero(b[1]):
                        return _mk("ParenExpr", [a[1]], type=n.get("type"), file=n.get("file"), line=n.get("line"), col=n.get("col"))
                    return binop(n["opcode"], a[1], b[1], n, type_=n.get("type"))
        if k == "BinaryOperator" and n.get("opcode") == "=" and ref_id(kids(n)[0]) in cursors:
            vid = ref_id(kids(n)[0])
            a = as_index(kids(n)[1])
            count[0] += 1
            return binop("=", ix_ref(vid, n, rvalue=False), a[1], n)
        if k == "CompoundAssignOperator" and ref_id(kids(n)[0]) in cursors:
            vid = ref_id(kids(n)[0])
            m2 = dict(n)
            m2["type"] = ITYPE
            m2["inner"] = [ix_ref(vid, n, rvalue=False), conv(kids(n)[1])]
            count[0] += 1
            return m2
        if k == "UnaryOperator" and n.get("opcode") in ("++", "--") and ref_id(kids(n)[0]) in cursors:
            vid = ref_id(kids(n)[0])
            m2 = dict(n)
            m2["type"] = ITYPE
            m2["inner"] = [ix_ref(vid, n, rvalue=False)]
            count[0] += 1
            return m2
        if k == "VarDecl" and n.get("id") in cursors:
            vid = n["id"]
            m2 = dict(n)
            m2["id"] = ixid[vid]
            m2["name"] = "%s_ix" % n.get("name")
            m2["type"] = ("const " + ITYPE) if re.search(r"\*\s*const$", (n.get("type") or "").strip()) else ITYPE
            m2["dtype"] = "long"
            if kids(n):
                a = as_index(kids(n)[0])
                m2["inner"] = [a[1]]
            count[0] += 1
            return m2
        if _is_ptr_type(n.get("type")) and k in ("DeclRefExpr", "BinaryOperator", "ImplicitCastExpr", "ParenExpr", "UnaryOperator"):
            a = as_index(n)
            if a is not None and not (strip(n)["kind"] == "DeclRefExpr" and ref_id(n) not in cursors):
                count[0] += 1
                pt = elem_type(a[0]) + " *"
                return _mk("UnaryOperator", [sub(a[0], a[1], n)], opcode="&", type=pt, file=n.get("file"), line=n.get("line"),
                           col=n.get("col"))
        if ch:
            n["inner"] = [conv(c) for c in ch]
        return n

    f.body = conv(body)
    return 1 if count[0] else 0
