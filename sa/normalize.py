"""NORM - model normalisation: static helper functions that no rule knows by name are transparent.

A maintainer may extract a block into a static helper (or the reverse) without changing behaviour.  Rules are
written against named anchor functions; a helper they have never heard of must not hide the statements it now
contains, and must not appear as a new "writer" of some field.  Before any rule runs, every call of such a
helper is replaced by the helper's body:

  * candidates: functions with internal linkage (static, defined in a .c file) whose name neither occurs as a token
    anywhere in the rule sources nor is listed in known_helpers.txt (the static helpers of the tree the rules were
    validated on - those are the reference instances), that are not recursive, whose address is not taken, that have no static locals, and whose returns
    can be brought into structured form (an `if (...) { ...; return; }` followed by more statements becomes
    if/else; returns inside loops disqualify the helper);
  * call contexts handled: a call statement, `(void)f(...)`, `T v = f(...)`, `x = f(...)`, `return f(...)`, and
    `if (f(...))`-style conditions where the call is evaluated first; other contexts leave the call in place
    (the helper then stays in the model);
  * parameters become single-definition locals initialised with the arguments, so value canonicalisation sees
    through them; local declarations get fresh identities;
  * a helper all of whose calls were replaced is removed from the model.

The transformation is purely syntactic and semantics-preserving for the C fragment it accepts; everything else is
left untouched.  It runs on every model load (it is part of "obtaining the resolved program").
"""
import copy
import os
import re

from .astutil import kids, strip, walk, callee_ref

_KNOWN = None


def known_tokens():
    """All identifier-like tokens in the rule and engine sources."""
    global _KNOWN
    if _KNOWN is None:
        here = os.path.dirname(os.path.abspath(__file__))
        toks = set()
        for root, _, files in os.walk(here):
            for fn in files:
                if fn.endswith(".py") and fn != "normalize.py":
                    with open(os.path.join(root, fn)) as f:
                        toks |= set(re.findall(r"[A-Za-z_][A-Za-z0-9_]{2,}", f.read()))
        try:
            with open(os.path.join(here, "known_helpers.txt")) as f:
                toks |= {l.strip() for l in f if l.strip() and not l.startswith("#")}
        except OSError:
            pass
        _KNOWN = toks
    return _KNOWN


class _Ids:
    n = 0

    @classmethod
    def fresh(cls, old):
        cls.n += 1
        return "inl%d:%s" % (cls.n, old)


def _has_return_in_loop(body):
    def rec(n, inloop):
        k = n["kind"]
        if k == "ReturnStmt" and inloop:
            return True
        if k in ("ForStmt", "WhileStmt", "DoStmt"):
            # the NDEBUG assert form do { (void)sizeof(x); } while (0) has no return
            return any(rec(c, True) for c in kids(n))
        if k == "SwitchStmt":
            return any(rec(c, True) for c in kids(n))       # returns inside a switch are not restructured
        return any(rec(c, inloop) for c in kids(n))
    return rec(body, False)


def _ends_with_return(stmt):
    if stmt["kind"] == "ReturnStmt":
        return True
    if stmt["kind"] == "CompoundStmt" and kids(stmt):
        return _ends_with_return(kids(stmt)[-1])
    if stmt["kind"] == "IfStmt" and len(kids(stmt)) > 2:
        return _ends_with_return(kids(stmt)[1]) and _ends_with_return(kids(stmt)[2])
    return False


def _contains_return(n):
    return any(x["kind"] == "ReturnStmt" for x in walk(n))


def _mk(kind, inner=None, **kw):
    d = {"kind": kind, "inner": inner or []}
    d.update(kw)
    return d


def _structure(stmts, like):
    """Rewrite a statement list so that no statement follows a statement that may return: if (c) {..return;} rest
    -> if (c) {..return;} else { rest }.  Returns the new list or None if impossible."""
    out = []
    for i, s in enumerate(stmts):
        rest = stmts[i + 1:]
        if s["kind"] == "IfStmt" and _contains_return(s) and rest:
            ch = kids(s)
            then = ch[1]
            els = ch[2] if len(ch) > 2 else None
            if _ends_with_return(then) and (els is None or not _contains_return(els)):
                tail = _structure(([els] if els is not None else []) + rest, like)
                if tail is None:
                    return None
                new_then = _restructure_block(then, like)
                if new_then is None:
                    return None
                node = dict(s)
                node["inner"] = [ch[0], new_then, _mk("CompoundStmt", tail, file=like.get("file"), line=like.get("line"))]
                out.append(node)
                return out
            if els is not None and _ends_with_return(els) and not _contains_return(then):
                # if (c) { A } else { ...; return; }  rest   ->   if (c) { A; rest } else { ...; return; }
                tail = _structure([then] + rest, like)
                new_els = _restructure_block(els, like)
                if tail is None or new_els is None:
                    return None
                node = dict(s)
                node["inner"] = [ch[0], _mk("CompoundStmt", tail, file=like.get("file"), line=like.get("line")), new_els]
                out.append(node)
                return out
            return None
        if s["kind"] == "CompoundStmt" and _contains_return(s) and rest:
            return None
        if s["kind"] in ("IfStmt", "CompoundStmt") and _contains_return(s):
            ns = _restructure_block(s, like) if s["kind"] == "CompoundStmt" else _restructure_if(s, like)
            if ns is None:
                return None
            out.append(ns)
            continue
        if s["kind"] == "ReturnStmt" and rest:
            out.append(s)
            return out          # dead code after return is dropped
        out.append(s)
    return out


def _restructure_block(b, like):
    if b["kind"] != "CompoundStmt":
        if b["kind"] == "IfStmt":
            return _restructure_if(b, like)
        return b
    st = _structure(kids(b), like)
    if st is None:
        return None
    nb = dict(b)
    nb["inner"] = st
    return nb


def _restructure_if(s, like):
    ch = kids(s)
    parts = [ch[0]]
    for br in ch[1:]:
        nb = _restructure_block(br, like)
        if nb is None:
            return None
        parts.append(nb)
    ns = dict(s)
    ns["inner"] = parts
    return ns


def _replace_returns(n, result_ref, like):
    """In a structured body replace `return e;` by `result = e;` (or drop a void return)."""
    if n["kind"] == "ReturnStmt":
        if kids(n) and result_ref is not None:
            return _mk("BinaryOperator", [copy.deepcopy(result_ref), kids(n)[0]], opcode="=", type=result_ref.get("type"),
                       file=n.get("file"), line=n.get("line"), col=n.get("col"))
        if kids(n):
            return kids(n)[0]          # value unused: keep the expression for its effects
        return _mk("NullStmt", file=n.get("file"), line=n.get("line"))
    if n["kind"] in ("CompoundStmt", "IfStmt"):
        nn = dict(n)
        nn["inner"] = [(_replace_returns(c, result_ref, like) if i > 0 or n["kind"] == "CompoundStmt" else c)
                       for i, c in enumerate(kids(n))]
        return nn
    return n


def _rename(body, idmap):
    """Deep copy with declaration identities (and references to them) renamed."""
    b = copy.deepcopy(body)
    for x in walk(b):
        if x["kind"] in ("VarDecl",) and x.get("id") is not None and x.get("storageClass") != "static":
            new = _Ids.fresh(x["id"])
            idmap[x["id"]] = new
            x["id"] = new
    for x in walk(b):
        if x["kind"] == "DeclRefExpr" and x.get("ref", {}).get("id") in idmap:
            x["ref"] = dict(x["ref"])
            x["ref"]["id"] = idmap[x["ref"]["id"]]
            if x["ref"].get("kind") == "ParmVarDecl":
                x["ref"]["kind"] = "VarDecl"
    return b


def _instantiate(g, call, want_result):
    """(statements, result DeclRefExpr or None) for one call of helper g."""
    idmap = {}
    decls = []
    args = kids(call)[1:]
    if len(args) != len(g.params):
        return None
    for p, a in zip(g.params, args):
        nid = _Ids.fresh(p["id"])
        idmap[p["id"]] = nid
        vd = _mk("VarDecl", [a], name=p.get("name"), id=nid, type=p.get("type"), file=call.get("file"), line=call.get("line"),
                 col=call.get("col"), init="c")
        decls.append(_mk("DeclStmt", [vd], file=call.get("file"), line=call.get("line")))
    result_ref = None
    if want_result:
        rt = (g.type or "").split("(")[0].strip()
        rid = _Ids.fresh("ret:" + g.name)
        rd = _mk("VarDecl", [], name="%s_result" % g.name, id=rid, type=rt, file=call.get("file"), line=call.get("line"))
        decls.append(_mk("DeclStmt", [rd], file=call.get("file"), line=call.get("line")))
        result_ref = _mk("DeclRefExpr", [], ref={"id": rid, "kind": "VarDecl", "name": "%s_result" % g.name, "type": rt},
                         type=rt, file=call.get("file"), line=call.get("line"), col=call.get("col"))
    body = _rename(g.body, idmap)
    st = _structure(kids(body), body)
    if st is None:
        return None
    body["inner"] = st
    body = _replace_returns(body, result_ref, body)
    return decls + kids(body), result_ref


def _first_evaluated_call(expr):
    """The CallExpr that is evaluated before anything else with side effects in `expr`, if it is syntactically the
    left-most leaf chain: !f(), f() == c, f() && x, (cast)f()."""
    n = expr
    while True:
        if n["kind"] in ("ParenExpr", "ImplicitCastExpr", "CStyleCastExpr"):
            n = kids(n)[-1]
            continue
        if n["kind"] == "UnaryOperator" and n.get("opcode") in ("!", "-", "~"):
            n = kids(n)[0]
            continue
        if n["kind"] == "BinaryOperator" and n.get("opcode") not in ("=", ","):
            n = kids(n)[0]
            continue
        break
    return n if n["kind"] == "CallExpr" else None


def _replace_node(root, old, new):
    for x in walk(root):
        ch = x.get("inner")
        if ch:
            for i, c in enumerate(ch):
                if c is old:
                    ch[i] = new
                    return True
    return False


def normalize(model):
    """Inline unknown static helpers in place.  Returns a list of notes (what was inlined / left)."""
    known = known_tokens()
    notes = []
    cands = {}
    for key, f in model.funcs.items():
        if not f.static or f.in_header or f.name in known:
            continue
        rel = model.rel(f.file) or ""
        if not rel.startswith(("src/", "include/")):
            continue
        if any(x["kind"] == "VarDecl" and x.get("storageClass") == "static" for x in walk(f.body)):
            continue
        if _has_return_in_loop(f.body):
            notes.append("helper %s not inlined: return inside a loop or switch" % f.name)
            continue
        if sum(1 for _ in walk(f.body)) > 1500:
            continue
        cands[key] = f
    if not cands:
        return notes
    # address taken / recursion
    for f in model.funcs.values():
        for k, n in model.fn_refs(f):
            if k in cands:
                notes.append("helper %s not inlined: its address is taken" % cands[k].name)
                cands.pop(k, None)
    for g in model.globals.values():
        for n in walk(g.node):
            if n["kind"] == "DeclRefExpr" and n.get("ref", {}).get("kind") == "FunctionDecl":
                cands.pop(model.resolve(g.unit, n["ref"]["name"]), None)

    def calls_cand(f):
        return [(model.resolve(f.unit, callee_ref(n)), n) for n in walk(f.body)
                if n["kind"] == "CallExpr" and callee_ref(n) and model.resolve(f.unit, callee_ref(n)) in cands]
    # drop recursive candidates
    changed = True
    while changed:
        changed = False
        for k, g in list(cands.items()):
            seen, work = set(), [k]
            while work:
                x = work.pop()
                fx = model.funcs.get(x)
                if fx is None:
                    continue
                for ck, _ in calls_cand(fx):
                    if ck == k:
                        cands.pop(k, None)
                        changed = True
                        work = []
                        break
                    if ck not in seen:
                        seen.add(ck)
                        work.append(ck)
    # inline bottom-up: repeat until no candidate call remains or no progress
    leftover = set()
    for _round in range(12):
        progress = False
        for f in list(model.funcs.values()):
            sites = calls_cand(f)
            if not sites:
                continue
            for ck, call in sites:
                g = cands[ck]
                if calls_cand(g):
                    continue            # inline into g first
                if _inline_site(f, call, g):
                    progress = True
                else:
                    leftover.add(ck)
        if not progress:
            break
    for k, g in list(cands.items()):
        still = any(ck == k for f in model.funcs.values() if f.key != k for ck, _ in calls_cand(f))
        if not still and k not in leftover:
            del model.funcs[k]
            model.static_names.get(g.unit, set()).discard(g.name)
            notes.append("helper %s inlined into its callers" % g.name)
        else:
            notes.append("helper %s kept (a call site could not be replaced)" % g.name)
    model._callgraph = None
    return notes


def _stmt_parent(f, node):
    """(parent CompoundStmt-or-branch owner, index, statement) of the statement that directly contains `node`."""
    path = []

    def rec(n):
        if n is node:
            return True
        for c in kids(n):
            if rec(c):
                path.append(n)
                return True
        return False
    if not rec(f.body):
        return None
    path.reverse()          # from body down to direct parent
    chain = path + [node]
    # find the innermost position where chain[i] is a CompoundStmt and chain[i+1] is its direct statement
    for i in range(len(chain) - 2, -1, -1):
        if chain[i]["kind"] == "CompoundStmt":
            stmt = chain[i + 1]
            return chain[i], kids(chain[i]).index(stmt), stmt, chain[i + 1:]
        # a branch/body that is a single statement (no braces): wrap on demand
        if chain[i]["kind"] in ("IfStmt", "ForStmt", "WhileStmt", "DoStmt") and chain[i + 1] is not kids(chain[i])[0]:
            pass
    return None


def _inline_site(f, call, g):
    loc_ = _stmt_parent(f, call)
    if loc_ is None:
        return False
    comp, idx, stmt, chain = loc_
    # the statement must not be a loop whose condition/increment contains the call
    if stmt["kind"] in ("ForStmt", "WhileStmt", "DoStmt"):
        body = kids(stmt)[-1] if stmt["kind"] != "DoStmt" else kids(stmt)[0]
        if not any(x is call for x in walk(body)):
            return False
        return False if body["kind"] != "CompoundStmt" else False
    s0 = stmt
    core = s0
    while core["kind"] in ("ParenExpr", "ImplicitCastExpr", "CStyleCastExpr"):
        core = kids(core)[-1]
    void_ret = (g.type or "").strip().startswith("void (") or (g.type or "").strip().startswith("void(")
    # (1) call statement
    if core is call:
        inst = _instantiate(g, call, False)
        if inst is None:
            return False
        stmts, _ = inst
        comp["inner"][idx:idx + 1] = stmts
        return True
    if void_ret:
        return False
    # (2) T v = f(...);   x = f(...);   return f(...);   if (f(...) ...) - the call is evaluated first
    host = None
    if s0["kind"] == "DeclStmt" and len(kids(s0)) == 1 and kids(kids(s0)[0]):
        if _first_evaluated_call(kids(kids(s0)[0])[0]) is call:
            host = s0
    elif s0["kind"] == "BinaryOperator" and s0.get("opcode") == "=":
        lhs = strip(kids(s0)[0], casts=True)
        if lhs["kind"] in ("DeclRefExpr", "MemberExpr") and not any(x["kind"] == "CallExpr" for x in walk(lhs)) \
                and _first_evaluated_call(kids(s0)[1]) is call:
            host = s0
    elif s0["kind"] == "ReturnStmt" and kids(s0) and _first_evaluated_call(kids(s0)[0]) is call:
        host = s0
    elif s0["kind"] == "IfStmt" and _first_evaluated_call(kids(s0)[0]) is call:
        host = s0
    elif s0["kind"] in ("CStyleCastExpr", "ParenExpr") and _first_evaluated_call(s0) is call:
        host = s0
    if host is None:
        return False
    inst = _instantiate(g, call, True)
    if inst is None:
        return False
    stmts, rref = inst
    if not _replace_node(host, call, rref):
        return False
    comp["inner"][idx:idx + 1] = stmts + [host]
    return True
