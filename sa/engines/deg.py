"""DEG - homogeneity-degree typing of arithmetic.

Every quantity gets a degree in a chosen scaling variable (weights W, or data X): deg(a*b) = deg a + deg b,
deg(a/b) = deg a - deg b, a +/- b and comparisons need equal degrees, sqrt halves, pow(a, c) multiplies by c;
non-zero literals have degree 0, the literal 0 is polymorphic.  A statistic that must not change when all
weights are multiplied by a constant must have degree 0 in W."""
from fractions import Fraction

from ..astutil import kids, strip, walk, callee_ref, render, int_value, float_value, loc
from ..frontend import AnalysisBroken

ANY = "any"


class DegEval:
    def __init__(self, m, func, field_deg, param_deg, call_deg=None):
        self.m = m
        self.f = func
        self.field_deg = field_deg          # field name -> degree
        self.param_deg = param_deg          # param name -> degree
        self.call_deg = call_deg or {}      # callee name -> degree of result
        self.env = {}
        self.problems = []
        self.stores = []                    # (lvalue text, field, degree, node)
        self.returns = []                   # (degree, node)
        self.checked = 0

    def run(self):
        for p in self.f.params:
            if p["name"] in self.param_deg:
                self.env[p["id"]] = self.param_deg[p["name"]]
        self.stmt(self.f.body)
        return self

    def stmt(self, n):
        k = n["kind"]
        if k == "CompoundStmt":
            for c in kids(n):
                self.stmt(c)
        elif k == "DeclStmt":
            for d in kids(n):
                if d["kind"] == "VarDecl" and kids(d):
                    ini = strip(kids(d)[0], casts=True)
                    t_ = (d.get("type") or "").replace("const ", "").strip()
                    if ini["kind"] == "InitListExpr" and t_.startswith("struct ") and "*" not in t_:
                        # a record local built from values: each member carries the degree of its initialiser
                        rec = self.m.records.get(t_[7:].strip()) or []
                        for (fn_, ft_, fd_), v_ in zip(rec, kids(ini)):
                            self.env[(d["id"], fn_)] = self.expr(v_)
                        continue
                    if ini["kind"] == "DeclRefExpr" and t_.startswith("struct ") and "*" not in t_:
                        src = ini["ref"].get("id")
                        copied = False
                        for k_, v_ in list(self.env.items()):
                            if isinstance(k_, tuple) and k_[0] == src:
                                self.env[(d["id"], k_[1])] = v_
                                copied = True
                        if copied:
                            continue
                    self.env[d["id"]] = self.expr(kids(d)[0])
        elif k == "IfStmt":
            ch = kids(n)
            self.expr(ch[0])
            self.stmt(ch[1])
            if len(ch) > 2:
                self.stmt(ch[2])
        elif k in ("ForStmt", "WhileStmt", "DoStmt"):
            for c in kids(n):
                if c["kind"] != "Null":
                    if c["kind"] in ("CompoundStmt", "DeclStmt", "IfStmt", "ReturnStmt"):
                        self.stmt(c)
                    else:
                        self.expr(c)
        elif k == "ReturnStmt":
            if kids(n):
                self.returns.append((self.expr(kids(n)[0]), n))
        elif k in ("NullStmt", "BreakStmt", "ContinueStmt"):
            pass
        else:
            self.expr(n)

    def expr(self, n):
        n = strip(n, casts=True)
        k = n["kind"]
        ch = kids(n)
        if k in ("IntegerLiteral", "FloatingLiteral"):
            v = float_value(n)
            return ANY if v == 0 else Fraction(0)
        if k == "DeclRefExpr":
            rid = n.get("ref", {}).get("id")
            if rid in self.env:
                return self.env[rid]
            if n["ref"].get("kind") == "EnumConstantDecl":
                return Fraction(0)
            return None
        if k == "MemberExpr":
            nm = n.get("name")
            b0 = strip(ch[0], casts=True) if ch else None
            if b0 is not None and b0["kind"] == "DeclRefExpr" and (b0["ref"].get("id"), nm) in self.env:
                return self.env[(b0["ref"]["id"], nm)]
            if nm in self.field_deg:
                return self.field_deg[nm]
            return None
        if k == "ArraySubscriptExpr":
            self.expr(ch[1])
            return self.expr(ch[0])
        if k == "UnaryOperator":
            op = n.get("opcode")
            if op in ("-", "+", "++", "--"):
                return self.expr(ch[0])
            if op == "*":
                base = strip(ch[0], casts=True)
                if base["kind"] == "DeclRefExpr" and base["ref"]["id"] in self.env:
                    return self.env[base["ref"]["id"]]
                return None
            if op == "!":
                self.expr(ch[0])
                return Fraction(0)
            return None
        if k == "ConditionalOperator":
            self.expr(ch[0])
            a, b = self.expr(ch[1]), self.expr(ch[2])
            return self.same(a, b, n, "the two branches of ?:")
        if k in ("BinaryOperator", "CompoundAssignOperator"):
            op = n.get("opcode")
            if op in ("=",) or k == "CompoundAssignOperator":
                r = self.expr(ch[1])
                l = strip(ch[0], casts=True)
                if k == "CompoundAssignOperator":
                    cur = self.expr(ch[0])
                    if op in ("+=", "-="):
                        r = self.same(cur, r, n, "both sides of %s" % op)
                    elif op == "*=":
                        r = self.add(cur, r)
                    elif op == "/=":
                        r = self.sub(cur, r)
                if l["kind"] == "DeclRefExpr" and l["ref"].get("kind") in ("VarDecl", "ParmVarDecl"):
                    self.env[l["ref"]["id"]] = r
                    r0_ = strip(ch[1], casts=True)
                    if op == "=" and r0_["kind"] == "DeclRefExpr":
                        for k_, v_ in list(self.env.items()):
                            if isinstance(k_, tuple) and k_[0] == r0_["ref"].get("id"):
                                self.env[(l["ref"]["id"], k_[1])] = v_
                elif l["kind"] == "MemberExpr":
                    self.stores.append((render(l), l.get("name"), r, n))
                elif l["kind"] == "ArraySubscriptExpr":
                    b = strip(kids(l)[0], casts=True)
                    nm_ = b.get("name") if b["kind"] == "MemberExpr" else (b.get("ref", {}).get("name") if b["kind"] == "DeclRefExpr" else None)
                    self.stores.append((render(l), (nm_ or "") + "[]", r, n))
                return r
            a, b = self.expr(ch[0]), self.expr(ch[1])
            # address arithmetic and tests on addresses (cursor + offset, cursor < end, p != NULL) carry no scale
            ptr_ = ["*" in (strip(z, casts=True).get("type") or "") for z in ch[:2]]
            if any(ptr_) and op in ("+", "-", "<", ">", "<=", ">=", "==", "!="):
                if op in ("+", "-"):
                    return a if ptr_[0] else b
                return Fraction(0)
            if op in ("+", "-"):
                return self.same(a, b, n, "the operands of '%s'" % op)
            if op == "*":
                return self.add(a, b)
            if op == "/":
                return self.sub(a, b)
            if op in ("<", ">", "<=", ">=", "==", "!="):
                self.same(a, b, n, "the operands of '%s'" % op)
                return Fraction(0)
            if op in ("&&", "||"):
                return Fraction(0)
            return None
        if k == "CallExpr":
            nm = callee_ref(n)
            args = [self.expr(a) for a in ch[1:]]
            if nm in ("sqrt",):
                return None if args[0] in (None, ANY) else args[0] / 2
            if nm == "pow":
                e = float_value(ch[2])
                if args[0] in (None,) or e is None:
                    return None
                return ANY if args[0] == ANY else args[0] * Fraction(e).limit_denominator(1000)
            if nm in ("fabs",):
                return args[0]
            if nm in self.call_deg:
                return self.call_deg[nm]
            return None
        return None

    def add(self, a, b):
        if a is None or b is None:
            return None
        if a == ANY or b == ANY:
            return ANY
        return a + b

    def sub(self, a, b):
        if a is None or b is None:
            return None
        if a == ANY:
            return ANY
        if b == ANY:
            return None
        return a - b

    def same(self, a, b, node, what):
        self.checked += 1
        if a is None or b is None:
            return a if b is None else b
        if a == ANY:
            return b
        if b == ANY:
            return a
        if a != b:
            self.problems.append((node, "%s have different degrees (%s vs %s): %s" % (what, a, b, render(node)[:120])))
            return None
        return a
