"""SHIFT - translation typing of arithmetic on a data array.

If every sample is replaced by x + c, each quantity is classified as
  I  invariant (does not change),            E  equivariant (changes by exactly + c),
  S  a sum of equivariants over a counted loop (S / count is E),
  Z  the literal zero (neutral),             X  anything else (depends on c in another way).
I - I, E - E are I; E +/- I is E; I * I and I / I are I; products and quotients involving E, S or X are X.
A result that must not change under a shift has to be I.  An X that reaches a result means the raw magnitude
of the data enters non-linearly and invariance would rely on cancellation - which floating point does not give
for shifts that are large compared with the spread.

Accumulators carried around a loop are typed by assumption-and-check (the class assumed at the loop head has to
be reproduced by the body).  The running-mean idiom (m starts at zero, d = x - m, m += d / (i + 1)) is accepted
as E only if every other use of the first-round difference d is multiplied by a factor that is exactly zero in
the first round ((d - d/(i+1)) with i = 0, or (x - m) after the update), since in the first round d still
contains the shift.
"""
import itertools
import re

from ..astutil import kids, strip, walk, callee_ref, render, float_value, loc
from ..frontend import AnalysisBroken

Z, I, E, X = "Z", "I", "E", "X"


def _norm(t):
    return re.sub(r"[\s()]", "", re.sub(r"(?<=\d)[uU][lL]*\b", "", re.sub(r"\((double|float|long double)\)", "", t)))


def is_sum(c):
    return isinstance(c, tuple) and c[0] == "S"


class ShiftEval:
    def __init__(self, m, func, field_cls, param_cls):
        self.m, self.f = m, func
        self.field_cls, self.param_cls = field_cls, param_cls
        self.env = {}
        self.names = {}
        self.problems = []       # (node, message)
        self.stores = []         # (text, base name, class, node)
        self.notes = []
        self.checked = 0
        self.loop_stack = []
        self.quiet = 0

    def run(self):
        for p in self.f.params:
            if p["name"] in self.param_cls:
                self.env[p["id"]] = self.param_cls[p["name"]]
        self.stmt(self.f.body)
        return self

    # -- algebra ------------------------------------------------------------
    def plus(self, a, b, minus=False):
        # pointers into a typed array: ('P', class of the elements); pointer +/- integer keeps it, pointer - pointer is a count
        if isinstance(a, tuple) and a and a[0] == "P":
            if isinstance(b, tuple) and b and b[0] == "P":
                return I if minus else X
            return a if b in (I, Z, None) else X
        if isinstance(b, tuple) and b and b[0] == "P":
            return b if (a in (I, Z, None) and not minus) else X
        if a is None or b is None:
            return None
        if a == Z:
            return b if not minus else (I if b in (I, Z) else X if b != Z else Z)
        if b == Z:
            return a
        if a == X or b == X:
            return X
        if a == I and b == I:
            return I
        if a == E and b == I:
            return E
        if a == I and b == E:
            return X if minus else E
        if a == E and b == E:
            return I if minus else X
        if is_sum(a) and b == E and not minus:
            return a
        if is_sum(a) and is_sum(b) and a == b:
            return I if minus else X
        return X

    def times(self, a, b):
        if a is None or b is None:
            return None
        if a == Z or b == Z:
            return Z
        if a == I and b == I:
            return I
        return X

    def over(self, a, b, bnode):
        if a is None or b is None:
            return None
        if a == Z:
            return Z
        if a == I and b == I:
            return I
        if is_sum(a) and b == I and _norm(render(bnode)) == a[1]:
            return E
        return X

    # -- statements ------------------------------------------------------------
    def stmt(self, n):
        k = n["kind"]
        if k == "CompoundStmt":
            for c in kids(n):
                self.stmt(c)
        elif k == "DeclStmt":
            for d in kids(n):
                if d["kind"] == "VarDecl":
                    self.names[d["id"]] = d["name"]
                    if kids(d):
                        self.env[d["id"]] = self.expr(kids(d)[0])
        elif k == "IfStmt":
            ch = kids(n)
            self.expr(ch[0])
            before = dict(self.env)
            self.stmt(ch[1])
            after_then = self.env
            self.env = dict(before)
            if len(ch) > 2:
                self.stmt(ch[2])
            for vid in set(after_then) | set(self.env):
                a, b = after_then.get(vid), self.env.get(vid)
                self.env[vid] = a if a == b else self.join(a, b)
        elif k in ("ForStmt", "WhileStmt"):
            self.loop(n)
        elif k == "ReturnStmt":
            if kids(n):
                self.expr(kids(n)[0])
        elif k in ("NullStmt", "BreakStmt", "ContinueStmt", "DoStmt"):
            pass
        else:
            self.expr(n)

    def join(self, a, b):
        if a is None or b is None:
            return a if b is None else b
        if a == Z:
            return b
        if b == Z:
            return a
        return a if a == b else X

    def loop(self, n):
        ch = kids(n)
        if n["kind"] == "ForStmt":
            init, cond, inc, body = ch[0], ch[2], ch[3], ch[4]
        else:
            init, cond, inc, body = None, ch[0], None, ch[1]
        lv, bound, start = None, None, None
        if init is not None and init["kind"] != "Null":
            self.stmt(init)
            for x in walk(init):
                if x["kind"] == "VarDecl":
                    lv = x
                    start = _norm(render(kids(x)[0])) if kids(x) else None
        if cond is not None and cond["kind"] == "BinaryOperator" and cond.get("opcode") == "<" and lv is not None \
                and _norm(render(kids(cond)[0])) == lv["name"]:
            bound = _norm(render(kids(cond)[1]))
        if cond is not None and cond["kind"] == "BinaryOperator" and cond.get("opcode") == "<=" and lv is not None \
                and _norm(render(kids(cond)[0])) == lv["name"] and start == "1":
            bound = _norm(render(kids(cond)[1]))          # 1 .. n inclusive: n rounds as well
        if lv is not None:
            self.env[lv["id"]] = I
        # accumulators: variables assigned in the body that were declared outside it
        inner = {x["id"] for x in walk(body) if x["kind"] == "VarDecl"}
        acc = []
        for y in walk(body):
            t = None
            if y["kind"] == "CompoundAssignOperator" or (y["kind"] == "BinaryOperator" and y.get("opcode") == "="):
                t = strip(kids(y)[0], casts=True)
            if t is not None and t["kind"] == "DeclRefExpr" and t["ref"]["id"] not in inner and t["ref"]["id"] not in acc \
                    and (lv is None or t["ref"]["id"] != lv["id"]):
                acc.append(t["ref"]["id"])
        info = {"var": lv["name"] if lv else None, "start": start, "bound": bound, "node": n}
        self.loop_stack.append(info)
        cands = [I, E] + ([("S", bound)] if (bound and start in ("0", "1")) else []) + [X]
        chosen = None
        saved = (dict(self.env), len(self.problems), len(self.stores), self.checked)
        for assign in itertools.product(cands, repeat=len(acc)):
            self.env = dict(saved[0])
            ok = True
            for vid, c in zip(acc, assign):
                init_c = saved[0].get(vid)
                if init_c not in (Z, None, c) and not (c == X):
                    ok = False
                self.env[vid] = c
            if not ok:
                continue
            self.quiet += 1
            del self.problems[saved[1]:]
            del self.stores[saved[2]:]
            self.stmt(body)
            self.quiet -= 1
            if all(self.env.get(vid) in (c, Z) for vid, c in zip(acc, assign)):
                # running-mean idiom: an E accumulator that starts at zero is only E from the second round on
                sound = True
                for vid, c in zip(acc, assign):
                    if c == E and saved[0].get(vid) == Z:
                        why = self.first_round_ok(body, vid, info)
                        if why is not None:
                            sound = False
                            self.notes.append("%s cannot be typed as a running mean: %s" % (self.names.get(vid, vid), why))
                if sound:
                    chosen = assign
                    break
        del self.problems[saved[1]:]
        del self.stores[saved[2]:]
        self.env = dict(saved[0])
        if chosen is None:
            chosen = tuple(X for _ in acc)
        for vid, c in zip(acc, chosen):
            self.env[vid] = c
        self.stmt(body)          # the recorded pass
        for vid, c in zip(acc, chosen):
            self.env[vid] = c
        self.loop_stack.pop()

    def first_round_ok(self, body, vid, info):
        """None if the zero-initialised accumulator `vid` may be treated as equivariant inside the loop."""
        if info["start"] not in ("0", "1") or not info["var"]:
            return "the loop does not count from zero (or from one)"
        lvn = info["var"]
        # the number of samples seen including this one: i + 1 when counting from 0, i when counting from 1
        nth = ("%s+1" % lvn, "1+%s" % lvn) if info["start"] == "0" else (lvn, lvn)
        stmts = kids(body) if body["kind"] == "CompoundStmt" else [body]
        name = self.names.get(vid)
        tainted = {}      # local name -> init text
        upd_index = None
        for i, s in enumerate(stmts):
            if s["kind"] == "DeclStmt":
                for d in kids(s):
                    if d["kind"] == "VarDecl" and kids(d):
                        refs = {y["ref"]["name"] for y in walk(kids(d)[0]) if y["kind"] == "DeclRefExpr"}
                        if upd_index is None and (name in refs or refs & set(tainted)):
                            tainted[d["name"]] = _norm(render(kids(d)[0]))
            t = strip(s, casts=True)
            if t["kind"] in ("CompoundAssignOperator", "BinaryOperator") and t.get("opcode") in ("+=", "=") and \
                    strip(kids(t)[0], casts=True).get("ref", {}).get("id") == vid and upd_index is None:
                upd_index = i
        if upd_index is None:
            return "its update is not a statement of the loop body"
        diffs = [k_ for k_, v_ in tainted.items() if re.fullmatch(r".+-%s" % re.escape(name), v_)]
        if not diffs:
            return "no difference (sample - mean) is formed before the update"
        d0 = diffs[0]
        sample = tainted[d0][:-(len(name) + 1)]
        quot = [k_ for k_, v_ in tainted.items() if v_ in ("%s/%s" % (d0, nth[0]), "%s/%s" % (d0, nth[1]))]
        up = strip(stmts[upd_index], casts=True)
        rhs = _norm(render(kids(up)[1]))
        okupd = (up.get("opcode") == "+=" and (rhs in quot or rhs in ("%s/%s" % (d0, nth[0]), "%s/%s" % (d0, nth[1]))))
        if not okupd:
            return "the update is not mean += (sample - mean) / (i + 1)"
        zero_factors = {"%s-%s" % (d0, q) for q in quot} | {"%s-%s/%s" % (d0, d0, nth[0])}
        late_zero = "%s-%s" % (sample, name)
        for i, s in enumerate(stmts):
            if i == upd_index:
                continue
            for y in walk(s):
                if y["kind"] == "DeclRefExpr" and y["ref"]["name"] in tainted:
                    # allowed inside the definitions of the tainted locals themselves
                    if s["kind"] == "DeclStmt" and any(d.get("name") in tainted for d in kids(s)):
                        continue
                    # otherwise: inside a product with a first-round-zero factor
                    chain = []

                    def find(nd, path):
                        if nd is y:
                            chain.extend(path)
                            return True
                        return any(find(c, path + [nd]) for c in kids(nd))
                    find(s, [])
                    okf = False
                    for anc in chain:
                        if anc["kind"] == "BinaryOperator" and anc.get("opcode") == "*":
                            for fct in kids(anc):
                                ft = _norm(render(fct))
                                if ft in zero_factors or (ft == late_zero and i > upd_index):
                                    okf = True
                    if not okf:
                        return ("'%s' (which still contains the shift in the first round) is used at line %s outside a "
                                "product with a factor that vanishes in the first round" % (y["ref"]["name"], y.get("line")))
        return None

    # -- expressions --------------------------------------------------------------
    def expr(self, n):
        n = strip(n, casts=True)
        k = n["kind"]
        ch = kids(n)
        if k in ("IntegerLiteral", "FloatingLiteral"):
            v = float_value(n)
            return Z if v == 0 else I
        if k == "DeclRefExpr":
            rid = n.get("ref", {}).get("id")
            if rid in self.env:
                return self.env[rid]
            if n["ref"].get("kind") == "EnumConstantDecl":
                return I
            return None
        if k == "MemberExpr":
            if "*" in (n.get("type") or ""):
                c_ = self.field_cls.get(n.get("name"))
                return ("P", c_) if c_ is not None else None          # the array itself: a pointer to samples of class c_
            return self.field_cls.get(n.get("name"))
        if k == "ArraySubscriptExpr":
            self.expr(ch[1])
            b = strip(ch[0], casts=True)
            if b["kind"] == "MemberExpr":
                return self.field_cls.get(b.get("name"))
            v_ = self.expr(b)
            return v_[1] if isinstance(v_, tuple) and v_ and v_[0] == "P" else v_
        if k == "UnaryOperator":
            op = n.get("opcode")
            if op == "-":
                a = self.expr(ch[0])
                return a if a in (I, Z, None) else X
            if op in ("+", "++", "--"):
                return self.expr(ch[0])
            if op == "!":
                self.expr(ch[0])
                return I
            if op == "*":
                v_ = self.expr(ch[0])
                return v_[1] if isinstance(v_, tuple) and v_ and v_[0] == "P" else v_
            if op == "&":
                # the address of an element of a sample array is a pointer to samples of that class
                a0 = strip(ch[0], casts=True)
                if a0["kind"] == "ArraySubscriptExpr":
                    self.expr(kids(a0)[1])
                    b0 = strip(kids(a0)[0], casts=True)
                    if b0["kind"] == "MemberExpr":
                        c_ = self.field_cls.get(b0.get("name"))
                        return ("P", c_) if c_ is not None else None
                    v_ = self.expr(b0)
                    return v_ if isinstance(v_, tuple) and v_ and v_[0] == "P" else None
                if a0["kind"] == "UnaryOperator" and a0.get("opcode") == "*":
                    return self.expr(kids(a0)[0])
            return None
        if k == "ConditionalOperator":
            self.expr(ch[0])
            return self.join(self.expr(ch[1]), self.expr(ch[2]))
        if k in ("BinaryOperator", "CompoundAssignOperator"):
            op = n.get("opcode")
            if op == "=" or k == "CompoundAssignOperator":
                r = self.expr(ch[1])
                l = strip(ch[0], casts=True)
                if k == "CompoundAssignOperator":
                    cur = self.expr(ch[0])
                    if op == "+=":
                        if cur in (Z,) or is_sum(cur):
                            # a sum of equivariants over the enclosing counted loop
                            if r == E and self.loop_stack and self.loop_stack[-1]["bound"] and self.loop_stack[-1]["start"] == "0":
                                want = ("S", self.loop_stack[-1]["bound"])
                                r = want if cur in (Z, want) else X
                            else:
                                r = self.plus(cur, r)
                        else:
                            r = self.plus(cur, r)
                    elif op == "-=":
                        r = self.plus(cur, r, minus=True)
                    elif op == "*=":
                        r = self.times(cur, r)
                    elif op == "/=":
                        r = self.over(cur, r, ch[1])
                if l["kind"] == "DeclRefExpr" and l["ref"].get("kind") in ("VarDecl", "ParmVarDecl"):
                    self.env[l["ref"]["id"]] = r
                elif l["kind"] == "MemberExpr":
                    self.stores.append((render(l), l.get("name"), r, n))
                elif l["kind"] == "ArraySubscriptExpr":
                    b = strip(kids(l)[0], casts=True)
                    nm_ = b.get("name") if b["kind"] == "MemberExpr" else (b.get("ref", {}).get("name") if b["kind"] == "DeclRefExpr" else None)
                    self.stores.append((render(l), (nm_ or "") + "[]", r, n))
                return r
            a, b = self.expr(ch[0]), self.expr(ch[1])
            if op == "+":
                return self.plus(a, b)
            if op == "-":
                return self.plus(a, b, minus=True)
            if op == "*":
                return self.times(a, b)
            if op == "/":
                return self.over(a, b, ch[1])
            if op in ("<", ">", "<=", ">=", "==", "!="):
                self.checked += 1
                if (isinstance(a, tuple) and a and a[0] == "P") or (isinstance(b, tuple) and b and b[0] == "P"):
                    return I              # a test on addresses (NULL check, cursor against end), not on sample values
                d = self.plus(a, b, minus=True) if (a is not None and b is not None) else None
                if d is not None and d not in (I, Z) and not self.quiet:
                    self.problems.append((n, "the comparison %s relates a quantity of class %s to one of class %s: its outcome "
                                          "changes when the data are shifted" % (render(n)[:100], a, b)))
                return I
            if op in ("&&", "||"):
                return I
            return None
        if k == "CallExpr":
            nm = callee_ref(n)
            args = [self.expr(a) for a in ch[1:]]
            if nm in ("sqrt", "fabs", "log", "exp", "pow", "floor", "ceil"):
                return I if all(a in (I, Z) for a in args) else (None if any(a is None for a in args) else X)
            return None
        return None
