"""IVL - interval evaluation of parameter-derived expressions under a function's asserted preconditions.

Intervals over the extended reals with open/closed end points.  A parameter gets its interval from the
function's assertions (release or debug form: the documented precondition) and from early-return guards;
relations between two parameters (min < max) are kept as facts and used for differences.  Anything that
involves a random draw or an unknown call evaluates to None (not parameter-derived) and is not judged.
The engine answers one kind of question: can this divisor be 0 or infinite, can this logarithm's argument be 0,
for some parameter value that the precondition admits?
"""
import math

from ..astutil import kids, strip, walk, callee_ref, render, float_value

INF = float("inf")


class Iv:
    __slots__ = ("lo", "lc", "hi", "hc")

    def __init__(self, lo, lc, hi, hc):
        self.lo, self.lc, self.hi, self.hc = lo, lc, hi, hc

    @staticmethod
    def point(v):
        return Iv(v, True, v, True)

    @staticmethod
    def top():
        return Iv(-INF, False, INF, False)

    def contains(self, v):
        if v < self.lo or v > self.hi:
            return False
        if v == self.lo and not self.lc:
            return False
        if v == self.hi and not self.hc:
            return False
        return True

    def show(self):
        return "%s%g, %g%s" % ("[" if self.lc else "(", self.lo, self.hi, "]" if self.hc else ")")


def _ends(a):
    return [(a.lo, a.lc), (a.hi, a.hc)]


def neg(a):
    return Iv(-a.hi, a.hc, -a.lo, a.lc)


def add(a, b):
    return Iv(a.lo + b.lo, a.lc and b.lc, a.hi + b.hi, a.hc and b.hc)


def mul(a, b):
    cands = []
    for x, xc in _ends(a):
        for y, yc in _ends(b):
            if (x == 0 and abs(y) == INF) or (y == 0 and abs(x) == INF):
                v = 0.0
            else:
                v = x * y
            cands.append((v, xc and yc))
    lo = min(c[0] for c in cands)
    hi = max(c[0] for c in cands)
    lc = any(c[1] for c in cands if c[0] == lo)
    hc = any(c[1] for c in cands if c[0] == hi)
    return Iv(lo, lc, hi, hc)


def recip(b):
    """1/b for an interval that does not contain 0 in its interior or as a closed end."""
    if b.lo >= 0:
        lo = 0.0 if b.hi == INF else 1.0 / b.hi
        hi = INF if b.lo == 0 else 1.0 / b.lo
        return Iv(lo, b.hc, hi, b.lc)
    if b.hi <= 0:
        return neg(recip(neg(b)))
    return Iv.top()


def mono(f, a, lo_lim=None):
    return Iv(f(a.lo), a.lc, f(a.hi), a.hc)


def _log(v):
    if v <= 0:
        return -INF
    if v == INF:
        return INF
    return math.log(v)


def _exp(v):
    try:
        return math.exp(v)
    except OverflowError:
        return INF


class Eval:
    def __init__(self, m, func, cx, any_assert_condition, guards=True):
        self.m, self.f, self.cx = m, func, cx
        self.params = {p["name"]: Iv.top() for p in func.params if (p.get("type") or "").replace("const ", "") in
                       ("double", "float", "long double")}
        for p in func.params:
            t = (p.get("type") or "").replace("const ", "")
            if t.startswith("unsigned") or t in ("uint64_t", "uint32_t", "uint16_t", "size_t"):
                self.params[p["name"]] = Iv(0.0, True, INF, False)
        self.rel = set()        # ("lt"|"le", a, b) between parameter names
        self.with_random = False
        self.override = {}
        self.notes = []
        for s in kids(func.body):
            c = any_assert_condition(s)
            if c is not None:
                self.assume(c, True)
                self.notes.append(render(c))
                continue
            # early return: if (cond) return ...;
            if guards and s["kind"] == "IfStmt" and len(kids(s)) == 2:
                body = kids(s)[1]
                last = kids(body)[-1] if body["kind"] == "CompoundStmt" and kids(body) else body
                if last["kind"] == "ReturnStmt":
                    self.assume(kids(s)[0], False)
                    self.notes.append("not " + render(kids(s)[0]))
        # memo variables: static locals with exactly one store
        self.memo = {}

    # -- preconditions ------------------------------------------------------
    def assume(self, c, positive):
        c = strip(c, casts=True)
        if c["kind"] == "BinaryOperator" and c.get("opcode") == "&&" and positive:
            self.assume(kids(c)[0], True)
            self.assume(kids(c)[1], True)
            return
        if c["kind"] == "BinaryOperator" and c.get("opcode") == "||" and not positive:
            self.assume(kids(c)[0], False)
            self.assume(kids(c)[1], False)
            return
        if c["kind"] == "UnaryOperator" and c.get("opcode") == "!":
            self.assume(kids(c)[0], not positive)
            return
        if c["kind"] != "BinaryOperator" or c.get("opcode") not in ("<", "<=", ">", ">=", "==", "!="):
            return
        op = c["opcode"]
        if not positive:
            op = {"<": ">=", "<=": ">", ">": "<=", ">=": "<", "==": "!=", "!=": "=="}[op]
        a, b = strip(kids(c)[0], casts=True), strip(kids(c)[1], casts=True)
        an = a["ref"]["name"] if a["kind"] == "DeclRefExpr" else None
        bn = b["ref"]["name"] if b["kind"] == "DeclRefExpr" else None
        av, bv = float_value(a), float_value(b)
        if an in self.params and bv is not None:
            self._bound(an, op, bv)
        elif bn in self.params and av is not None:
            self._bound(bn, {"<": ">", "<=": ">=", ">": "<", ">=": "<=", "==": "==", "!=": "!="}[op], av)
        elif an in self.params and bn in self.params:
            if op == "<":
                self.rel.add(("lt", an, bn))
            elif op == "<=":
                self.rel.add(("le", an, bn))
            elif op == ">":
                self.rel.add(("lt", bn, an))
            elif op == ">=":
                self.rel.add(("le", bn, an))

    def _bound(self, name, op, v):
        iv = self.params[name]
        if op == ">":
            if v > iv.lo or (v == iv.lo and iv.lc):
                iv = Iv(v, False, iv.hi, iv.hc)
        elif op == ">=":
            if v > iv.lo:
                iv = Iv(v, True, iv.hi, iv.hc)
        elif op == "<":
            if v < iv.hi or (v == iv.hi and iv.hc):
                iv = Iv(iv.lo, iv.lc, v, False)
        elif op == "<=":
            if v < iv.hi:
                iv = Iv(iv.lo, iv.lc, v, True)
        elif op == "==":
            iv = Iv.point(v)
        self.params[name] = iv

    def related(self, a, b):
        """'lt' / 'le' / None for parameters a ? b, through the transitive closure of the asserted relations."""
        best = {a: "le0"}
        work = [a]
        strict = {a: False}
        while work:
            x = work.pop()
            for kind, u, v in self.rel:
                if u == x:
                    st = strict[x] or kind == "lt"
                    if v not in strict or (st and not strict[v]):
                        strict[v] = st
                        work.append(v)
        if b in strict and b != a:
            return "lt" if strict[b] else "le"
        return None

    RANDOM = {"cmb_random": (0.0, True, 1.0, False), "cmb_random_std_exponential": (0.0, True, INF, False),
              "cmb_random_std_normal": (-INF, False, INF, False)}

    # -- expressions ------------------------------------------------------------
    def ev(self, n, depth=0):
        """Interval of a parameter-derived expression, or None (random / unknown)."""
        if depth > 12:
            return None
        n = strip(n, casts=True)
        k = n["kind"]
        ch = kids(n)
        v = float_value(n) if k in ("IntegerLiteral", "FloatingLiteral") else None
        if v is not None:
            return Iv.point(v)
        if k == "DeclRefExpr":
            nm = n["ref"]["name"]
            if n["ref"]["id"] in self.override:
                return self.override[n["ref"]["id"]]
            if n["ref"].get("kind") == "ParmVarDecl":
                return self.params.get(nm)
            d = self.cx.single_def(n["ref"]["id"])
            if d is not None:
                return self.ev(d, depth + 1)
            # a memo: static local with exactly one store in this function
            from .. import inv
            sts = [(r, k_) for l, r, k_, n_ in inv.stores(self.f)
                   if strip(l, casts=True).get("ref", {}).get("id") == n["ref"]["id"]]
            if len(sts) == 1 and sts[0][1] == "=" and sts[0][0] is not None:
                return self.ev(sts[0][0], depth + 1)
            return None
        if k == "UnaryOperator" and n.get("opcode") == "-":
            a = self.ev(ch[0], depth + 1)
            return neg(a) if a else None
        if k == "UnaryOperator" and n.get("opcode") == "+":
            return self.ev(ch[0], depth + 1)
        if k == "BinaryOperator":
            op = n["opcode"]
            if op == "-":
                a0, b0 = strip(ch[0], casts=True), strip(ch[1], casts=True)
                if a0["kind"] == "DeclRefExpr" and b0["kind"] == "DeclRefExpr":
                    an, bn = a0["ref"]["name"], b0["ref"]["name"]
                    if an in self.params and bn in self.params:
                        r1, r2 = self.related(bn, an), self.related(an, bn)
                        if r1 == "lt":
                            return Iv(0.0, False, INF, False)
                        if r1 == "le":
                            return Iv(0.0, True, INF, False)
                        if r2 == "lt":
                            return Iv(-INF, False, 0.0, False)
                        if r2 == "le":
                            return Iv(-INF, False, 0.0, True)
            a, b = self.ev(ch[0], depth + 1), self.ev(ch[1], depth + 1)
            if a is None or b is None:
                return None
            if op == "+":
                return add(a, b)
            if op == "-":
                return add(a, neg(b))
            if op == "*":
                return mul(a, b)
            if op == "/":
                if b.contains(0.0) or (b.lo < 0 < b.hi):
                    return Iv.top()
                return mul(a, recip(b))
            return None
        if k == "CallExpr":
            nm = callee_ref(n)
            if self.with_random and nm in self.RANDOM and len(ch) == 1:
                return Iv(*self.RANDOM[nm])
            args = [self.ev(a, depth + 1) for a in ch[1:]]
            if any(a is None for a in args):
                return None
            if self.with_random and nm == "cmb_random_exponential":
                return mul(args[0], Iv(0.0, True, INF, False))
            if nm in ("ceil", "floor"):
                f_ = math.ceil if nm == "ceil" else math.floor
                g_ = lambda v_: v_ if abs(v_) == INF else float(f_(v_))
                a = args[0]
                return Iv(g_(a.lo), True if abs(a.lo) != INF else a.lc, g_(a.hi), True if abs(a.hi) != INF else a.hc)
            if nm == "log" and args[0].lo >= 0:
                return mono(_log, args[0])
            if nm == "exp":
                return mono(_exp, args[0])
            if nm == "sqrt" and args[0].lo >= 0:
                return mono(lambda v_: math.sqrt(v_) if v_ != INF else INF, args[0])
            if nm == "fabs":
                a = args[0]
                if a.lo >= 0:
                    return a
                if a.hi <= 0:
                    return neg(a)
                return Iv(0.0, True, max(-a.lo, a.hi), False)
            return None
        if k == "ConditionalOperator":
            a, b = self.ev(ch[1], depth + 1), self.ev(ch[2], depth + 1)
            if a is None or b is None:
                return None
            lo = min(a.lo, b.lo)
            hi = max(a.hi, b.hi)
            return Iv(lo, (a.lc and a.lo == lo) or (b.lc and b.lo == lo), hi, (a.hc and a.hi == hi) or (b.hc and b.hi == hi))
        return None
