"""LAU - exact algebra of straight-line floating-point update formulas, read as formulas over the rationals.

Values are Laurent polynomials (polynomials with integer exponents of either sign) over named symbols with rational
coefficients; +, -, * are exact, and a division is defined when the divisor is a single monomial (the update formulas
of the summaries divide by the total count / total weight only, which the caller names by one symbol).  The evaluator
walks the statements of one function in order - declarations, assignments, compound assignments, ++ on a count, whole
struct copies - over a store keyed by (object, field); pointer locals that are initialised from a parameter or from the
address of a local are aliases of that object (casts to the first member do not change the object).  Guard clauses (an
`if` whose branch always returns) are not taken: the caller states the precondition under which that is right.  Anything
else makes the analysis broken, never a pass.
"""
from fractions import Fraction

from ..astutil import kids, strip, walk, callee_ref, render
from ..frontend import AnalysisBroken
from ..vals import assert_condition


class LP(dict):
    """monomial: tuple of (symbol, exponent) sorted, exponents non-zero -> Fraction"""

    @staticmethod
    def const(c):
        p = LP()
        c = Fraction(c)
        if c != 0:
            p[()] = c
        return p

    @staticmethod
    def sym(s, e=1):
        p = LP()
        p[((s, e),)] = Fraction(1)
        return p

    def __add__(self, o):
        p = LP(self)
        for k, v in o.items():
            nv = p.get(k, 0) + v
            if nv == 0:
                p.pop(k, None)
            else:
                p[k] = nv
        return p

    def scale(self, c):
        p = LP()
        if c != 0:
            for k, v in self.items():
                p[k] = v * c
        return p

    def __sub__(self, o):
        return self + o.scale(-1)

    @staticmethod
    def _mulmono(a, b):
        d = dict(a)
        for s, e in b:
            ne = d.get(s, 0) + e
            if ne == 0:
                d.pop(s, None)
            else:
                d[s] = ne
        return tuple(sorted(d.items()))

    def __mul__(self, o):
        p = LP()
        for k1, v1 in self.items():
            for k2, v2 in o.items():
                k = LP._mulmono(k1, k2)
                nv = p.get(k, 0) + v1 * v2
                if nv == 0:
                    p.pop(k, None)
                else:
                    p[k] = nv
        return p

    def inverse(self):
        """defined for a single monomial"""
        if len(self) != 1:
            return None
        (k, v), = self.items()
        p = LP()
        p[tuple((s, -e) for s, e in k)] = 1 / v
        return p

    def show(self, limit=6):
        if not self:
            return "0"
        out = []
        for k in sorted(self)[:limit]:
            v = self[k]
            name = "*".join(s if e == 1 else "%s^%d" % (s, e) for s, e in k)
            out.append(("%s" % v) if not k else ("%s*%s" % (v, name) if v != 1 else name))
        return " + ".join(out) + (" + ..." if len(self) > limit else "")


def pow2(x):
    """2 ** x for x = c, or x = s + c with one symbol s of coefficient 1: 2**c * '2^s' (a symbol of its own)"""
    c = Fraction(0)
    syms = []
    for k, v in x.items():
        if k == ():
            c = v
        elif len(k) == 1 and k[0][1] == 1 and v == 1:
            syms.append(k[0][0])
        else:
            return None
    if c.denominator != 1 or len(syms) > 1:
        return None
    base = LP.const(Fraction(2) ** int(c))
    return base * LP.sym("2^" + syms[0]) if syms else base


class Formula:
    """Evaluate one function.  `objects`: parameter name -> {field: LP} initial contents; `scalars`: parameter name -> LP."""

    def __init__(self, m, func, objects, scalars, opaque_fields=("min", "max", "cookie"), lenient=False):
        self.lenient = lenient
        self.m, self.f = m, func
        self.store = {}
        for o, fields in objects.items():
            for fl, v in fields.items():
                self.store[(o, fl)] = v
        self.env = dict(scalars)
        self.alias = {o: o for o in objects}
        for p in func.params:
            self.alias.setdefault(p["name"], p["name"])
        self.local_structs = set()
        self.opaque = set(opaque_fields)
        self.steps = 0

    # ---------------------------------------------------------------- lvalues
    def root(self, n):
        """object name an expression of pointer / struct type designates, or None"""
        n = strip(n, casts=True)
        k = n["kind"]
        if k == "DeclRefExpr":
            nm = n["ref"]["name"]
            if nm in self.alias:
                return self.alias[nm]
            if nm in self.local_structs:
                return nm
            return None
        if k == "UnaryOperator" and n.get("opcode") in ("&", "*"):
            return self.root(kids(n)[0])
        if k == "MemberExpr":
            # a member that is itself a struct (the embedded base summary): same object, fields are flattened by name
            return self.root(kids(n)[0])
        return None

    def lkey(self, n):
        n = strip(n, casts=True)
        if n["kind"] == "MemberExpr":
            r = self.root(kids(n)[0])
            if r is not None:
                return (r, n.get("name"))
        return None

    # ---------------------------------------------------------------- expressions
    def ev(self, n):
        n = strip(n, casts=True)
        k = n["kind"]
        if k == "IntegerLiteral":
            return LP.const(int(n["value"]))
        if k == "FloatingLiteral":
            return LP.const(Fraction(str(n["value"])))
        if k == "DeclRefExpr":
            nm = n["ref"]["name"]
            if nm in self.env:
                return self.env[nm]
            return None
        if k == "MemberExpr":
            key = self.lkey(n)
            if key is None or key[1] in self.opaque:
                return None
            if key not in self.store:
                raise AnalysisBroken("LAU: %s reads %s.%s, which has no value here" % (self.f.name, key[0], key[1]))
            return self.store[key]
        if k == "BinaryOperator" and n.get("opcode") in ("+", "-", "*", "/"):
            a, b = self.ev(kids(n)[0]), self.ev(kids(n)[1])
            if a is None or b is None:
                return None
            op = n["opcode"]
            if op == "+":
                return a + b
            if op == "-":
                return a - b
            if op == "*":
                return a * b
            ib = b.inverse()
            if ib is None:
                raise AnalysisBroken("LAU: %s divides by '%s' = %s, which is not a single term over the chosen symbols"
                                     % (self.f.name, render(kids(n)[1]), b.show()))
            return a * ib
        if k == "BinaryOperator" and n.get("opcode") == "<<":
            a, b = self.ev(kids(n)[0]), self.ev(kids(n)[1])
            if a is None or b is None:
                return None
            p2 = pow2(b)
            return None if p2 is None else a * p2
        if k == "UnaryOperator" and n.get("opcode") == "-":
            a = self.ev(kids(n)[0])
            return None if a is None else a.scale(-1)
        if k == "UnaryOperator" and n.get("opcode") in ("++", "--"):
            key = self.lkey(kids(n)[0])
            if key is None:
                return None
            old = self.store.get(key)
            if old is None:
                return None
            new = old + LP.const(1 if n["opcode"] == "++" else -1)
            self.store[key] = new
            return old if n.get("isPostfix") else new
        if k == "BinaryOperator" and n.get("opcode") == "=":
            self.assign(kids(n)[0], kids(n)[1], "=")
            return self.ev(kids(n)[0]) if self.lkey(kids(n)[0]) in self.store else None
        return None

    # ---------------------------------------------------------------- statements
    def copy_struct(self, dst, src):
        for (o, fl), v in list(self.store.items()):
            if o == src:
                self.store[(dst, fl)] = v

    def assign(self, lhs, rhs, kind):
        l = strip(lhs, casts=True)
        # whole-struct copy
        if l["kind"] == "UnaryOperator" and l.get("opcode") == "*" or \
                (l["kind"] == "DeclRefExpr" and l["ref"]["name"] in self.local_structs):
            dst, src = self.root(l), self.root(rhs)
            if dst is None or src is None or kind != "=":
                if self.lenient:
                    return
                raise AnalysisBroken("LAU: %s: struct store '%s' not understood" % (self.f.name, render(lhs)))
            self.copy_struct(dst, src)
            return
        if l["kind"] == "DeclRefExpr":
            nm = l["ref"]["name"]
            if self.lenient and nm in self.alias and not any(p_["name"] == nm for p_ in self.f.params):
                r_ = self.root(rhs)
                if r_ is None:
                    self.alias.pop(nm, None)
                else:
                    self.alias[nm] = r_
                return
            v = self.ev(rhs)
            if kind == "=":
                self.env[nm] = v
            else:
                old = self.env.get(nm)
                self.env[nm] = None if (v is None or old is None) else self._apply(old, v, kind)
            return
        key = self.lkey(l)
        if key is None:
            if self.lenient:
                self.ev(rhs)
                return
            raise AnalysisBroken("LAU: %s: store to '%s' not understood" % (self.f.name, render(lhs)))
        v = self.ev(rhs)
        if key[1] in self.opaque:
            return
        if kind == "=":
            if v is None:
                if self.lenient and key not in self.store:
                    return
                raise AnalysisBroken("LAU: %s stores a value outside the algebra to %s.%s (%s)"
                                     % (self.f.name, key[0], key[1], render(rhs)))
            self.store[key] = v
        else:
            old = self.store.get(key)
            if v is None or old is None:
                raise AnalysisBroken("LAU: %s updates %s.%s with a value outside the algebra" % (self.f.name, key[0], key[1]))
            self.store[key] = self._apply(old, v, kind)

    def _init_struct(self, name, tname, il):
        """member-wise initial values of a struct local from its (fully ordered) initialiser list; nested records are
        flattened by field name like everywhere else in this evaluator"""
        rec = self.m.records.get(tname)
        if not rec:
            return
        vals = kids(il)
        for (fname, ftype, _fd), v in zip(rec, vals):
            v0 = strip(v, casts=True)
            ft = (ftype or "").replace("const ", "").strip()
            if ft.startswith("struct ") and not ft.endswith("*"):
                if v0["kind"] == "InitListExpr":
                    self._init_struct(name, ft[7:].strip(), v0)
                continue
            if fname in self.opaque:
                continue
            if v0["kind"] == "ImplicitValueInitExpr":
                self.store[(name, fname)] = LP()
                continue
            val = self.ev(v0)
            if val is not None:
                self.store[(name, fname)] = val

    @staticmethod
    def _apply(old, v, kind):
        if kind == "+=":
            return old + v
        if kind == "-=":
            return old - v
        if kind == "*=":
            return old * v
        if kind == "/=":
            iv = v.inverse()
            if iv is None:
                raise AnalysisBroken("LAU: division by a sum")
            return old * iv
        if kind == "<<=":
            p2 = pow2(v)
            if p2 is None:
                raise AnalysisBroken("LAU: shift by a non-constant sum")
            return old * p2
        raise AnalysisBroken("LAU: operator %s" % kind)

    def decide(self, cond):
        """truth of a comparison under the caller's sign knowledge (`self.positive`: values known to be > 0), else None"""
        c = strip(cond, casts=True)
        if c["kind"] == "UnaryOperator" and c.get("opcode") == "!":
            d = self.decide(kids(c)[0])
            return None if d is None else (not d)
        if c["kind"] != "BinaryOperator" or c.get("opcode") not in ("==", "!=", "<", "<=", ">", ">="):
            return None
        a, b = self.ev(kids(c)[0]), self.ev(kids(c)[1])
        if a is None or b is None:
            return None
        diff = a - b
        sign = None
        if not diff:
            sign = 0
        else:
            for p in getattr(self, "positive", ()):
                for sg in (1, -1):
                    q = diff.scale(sg)
                    if set(q) == set(p):
                        ratios = {q[k_] / p[k_] for k_ in p}
                        if len(ratios) == 1 and next(iter(ratios)) > 0:
                            sign = sg
        if sign is None:
            return None
        return {"==": sign == 0, "!=": sign != 0, "<": sign < 0, "<=": sign <= 0, ">": sign > 0, ">=": sign >= 0}[c["opcode"]]

    @staticmethod
    def _exits(s):
        if s["kind"] in ("ReturnStmt",):
            return True
        if s["kind"] == "CompoundStmt" and kids(s):
            return Formula._exits(kids(s)[-1])
        return False

    def run(self, stmts=None):
        """returns True when a return was executed"""
        for s in (kids(self.f.body) if stmts is None else stmts):
            self.steps += 1
            k = s["kind"]
            if k in ("NullStmt",):
                continue
            if assert_condition(s) is not None:
                continue
            if k == "ReturnStmt":
                return True
            if k == "CompoundStmt":
                if self.run(kids(s)):
                    return True
                continue
            if k == "DeclStmt":
                for vd in kids(s):
                    if vd["kind"] != "VarDecl":
                        continue
                    t = vd.get("type") or ""
                    init = kids(vd)[0] if kids(vd) else None
                    if t.rstrip().endswith("*"):
                        r = self.root(init) if init is not None else None
                        if r is None:
                            if self.lenient:
                                continue
                            raise AnalysisBroken("LAU: %s: pointer local '%s' does not name an object" % (self.f.name, vd["name"]))
                        self.alias[vd["name"]] = r
                    elif t.startswith("struct ") or t.startswith("const struct "):
                        self.local_structs.add(vd["name"])
                        i0 = strip(init, casts=True) if init is not None else None
                        if i0 is not None and i0["kind"] == "InitListExpr":
                            self._init_struct(vd["name"], t.replace("const ", "").replace("struct ", "").strip(), i0)
                        if i0 is not None and i0["kind"] != "InitListExpr":
                            src = self.root(i0)
                            if src is None:
                                if self.lenient:
                                    continue
                                raise AnalysisBroken("LAU: %s: struct local '%s' initialised from '%s'" % (self.f.name, vd["name"], render(init)))
                            self.copy_struct(vd["name"], src)
                    else:
                        self.env[vd["name"]] = self.ev(init) if init is not None else None
                continue
            if k == "IfStmt":
                ch = kids(s)
                d = self.decide(ch[0])
                if d is True:
                    if self.run([ch[1]]):
                        return True
                    continue
                if d is False:
                    if len(ch) > 2 and self.run([ch[2]]):
                        return True
                    continue
                if self._exits(ch[1]) and len(ch) <= 2:
                    continue                      # guard clause, not taken under the stated precondition
                if len(ch) > 2 and self._exits(ch[1]) and not self._exits(ch[2]):
                    if self.run([ch[2]]):
                        return True
                    continue
                # a branch that touches only opaque fields (minimum / maximum) is outside the algebra and harmless
                for y in walk(s):
                    if (y["kind"] == "BinaryOperator" and y.get("opcode") == "=") or y["kind"] == "CompoundAssignOperator" or \
                            (y["kind"] == "UnaryOperator" and y.get("opcode") in ("++", "--")):
                        t0 = strip(kids(y)[0], casts=True)
                        if t0["kind"] == "DeclRefExpr" and t0["ref"]["name"] not in self.alias and \
                                t0["ref"]["name"] not in self.local_structs:
                            self.env[t0["ref"]["name"]] = None        # a scalar local chosen by an undecided test: opaque
                            continue
                        if t0["kind"] == "DeclRefExpr" and self.lenient and t0["ref"]["name"] in self.alias and \
                                not any(p_["name"] == t0["ref"]["name"] for p_ in self.f.params):
                            self.alias.pop(t0["ref"]["name"], None)   # a pointer local re-pointed conditionally: names nothing
                            continue
                        key = self.lkey(kids(y)[0])
                        if key is None or key[1] not in self.opaque:
                            raise AnalysisBroken("LAU: %s: conditional update of '%s'" % (self.f.name, render(kids(y)[0])))
                continue
            if k in ("DoStmt", "WhileStmt", "ForStmt"):
                if self.lenient:
                    # a loop may not touch a tracked field; locals it assigns become unknown
                    for y in walk(s):
                        if (y["kind"] == "BinaryOperator" and y.get("opcode") == "=") or y["kind"] == "CompoundAssignOperator" or \
                                (y["kind"] == "UnaryOperator" and y.get("opcode") in ("++", "--")):
                            t0 = strip(kids(y)[0], casts=True)
                            if t0["kind"] == "DeclRefExpr":
                                self.env[t0["ref"]["name"]] = None
                                continue
                            key = self.lkey(t0)
                            if key is not None and key in self.store and key[1] not in self.opaque:
                                raise AnalysisBroken("LAU: %s: tracked field %s.%s is updated in a loop" % (self.f.name, key[0], key[1]))
                    continue
                if any((y["kind"] == "BinaryOperator" and y.get("opcode") == "=") or y["kind"] in ("CompoundAssignOperator", "CallExpr")
                       or (y["kind"] == "UnaryOperator" and y.get("opcode") in ("++", "--")) for y in walk(s)):
                    raise AnalysisBroken("LAU: %s: loop with effects" % self.f.name)
                continue
            if k == "BinaryOperator" and s.get("opcode") == "=":
                self.assign(kids(s)[0], kids(s)[1], "=")
                continue
            if k == "CompoundAssignOperator":
                self.assign(kids(s)[0], kids(s)[1], s.get("opcode"))
                continue
            if k == "UnaryOperator" and s.get("opcode") in ("++", "--"):
                self.ev(s)
                continue
            if k == "CallExpr":
                # initialisers of a local summary and logging: no effect on the fields that are compared (they are
                # assigned before they are read, which `ev` enforces by refusing to read a field without a value)
                continue
            if k in ("ParenExpr", "ImplicitCastExpr", "CStyleCastExpr"):
                inner = strip(s, casts=True)
                if inner is not s:
                    if self.run([inner]):
                        return True
                continue
            if k == "ConditionalOperator":
                continue
            raise AnalysisBroken("LAU: %s: statement kind %s not understood" % (self.f.name, k))
        return False
