"""TRACE - path-by-path event traces per atomic region (built on FLOW).

Every path through a root function is walked; memory stores, calls and branch
facts are appended to the path's trace.  A region ends at a return or at a
call that may yield; the rule's callback then sees the whole trace of that
region and decides.  Traces are reset at region ends, so loops whose bodies
contain a blocking call converge.  Branch atoms are recorded as ('assume',
canonical condition, truth) so rules can require dominance by a test.
"""
import re

from ..astutil import kids, strip, walk, callee_ref, render, is_null_expr, loc
from ..frontend import AnalysisBroken
from .flow import Flow, Domain, State

MAX_TRACE = 120


class TraceDomain(Domain):
    def __init__(self, model, root, on_region_end, may_yield=None, inline_pred=None, keep_assumes=True,
                 noreturn=()):
        self.m = model
        self.root = root
        self.cb = on_region_end
        self.may_yield = may_yield if may_yield is not None else model.reaches({"cmi_coroutine_transfer"})
        self.inline_pred = inline_pred
        self.keep_assumes = keep_assumes
        self.noreturn = set(noreturn)
        self.regions = 0

    def inline(self, flow, callee, call):
        if callee is None or callee.key in self.may_yield:
            return False
        if self.inline_pred is not None:
            return self.inline_pred(callee)
        return callee.static and not callee.in_header

    def _add(self, s, ev):
        t = s.d.get(("trace",), ())
        if len(t) >= MAX_TRACE:
            raise AnalysisBroken("%s: trace too long (unbounded loop without a blocking call?)" % self.root.key)
        s.d[("trace",)] = t + (ev,)
        s._k = None

    def store(self, flow, s, lc, lhs, value, rhs, op, node):
        self._add(s, ("store", lc, op, value, self.m.rel(loc(node)), flow.cur_func().name))
        return [s]

    def call(self, flow, s, call, name, args):
        if name == "cmi_assert_failed" or name in self.noreturn:
            return []
        s = s.copy()
        where = self.m.rel(loc(call))
        key = self.m.resolve(flow.cur_unit(), name) if name else None
        yields = False
        if name is None:
            for n2, sig, targets in self.m.indirect_sites.get(flow.cur_func().key, []):
                if n2 is call:
                    yields = any(t in self.may_yield for t in targets)
            nm = "(*%s)" % flow.canon(s, kids(call)[0])
        else:
            yields = key in self.may_yield
            nm = name
        ev = ("call", nm, tuple(args), where, flow.cur_func().name, flow.canon(s, call))
        if yields:
            self.regions += 1
            self.cb(self, flow, s, s.d.get(("trace",), ()), "yield:" + nm, where, ev)
            s.d[("trace",)] = (("resume", nm, tuple(args), where, flow.cur_func().name, flow.canon(s, call)),)
            s._k = None
            flow.age_env(s, "L%s" % call.get("line"))
            self.after_yield(flow, s)
        else:
            self._add(s, ev)
        return [s]

    def after_yield(self, flow, s):
        pass

    def loop_mode(self, flow, body):
        """Loops that contain a region end converge because traces are reset there; all other
        loops are walked for zero and one representative iteration."""
        for x in walk(body):
            if x["kind"] == "CallExpr":
                nm = callee_ref(x)
                if nm is None:
                    continue
                if self.m.resolve(flow.cur_unit(), nm) in self.may_yield:
                    return "fix"
        return "once"

    def assume(self, flow, s, cond, truth):
        if not self.keep_assumes:
            return [s]
        c = flow.canon(s, cond)
        # contradiction with an earlier assumption on the same unchanged condition in this region
        t = s.d.get(("trace",), ())
        last_store = -1
        for i, e in enumerate(t):
            if e[0] in ("store", "call", "resume"):
                last_store = i
        for i in range(len(t) - 1, last_store, -1):
            e = t[i]
            if e[0] == "assume" and e[1] == c:
                return [s] if e[2] == truth else []
        s = s.copy()
        self._add(s, ("assume", c, truth, self.m.rel(loc(cond))))
        return [s]

    def at_return(self, flow, s, node, value):
        self.regions += 1
        where = self.m.rel(loc(node)) if node is not None else self.m.rel(self.root.where)
        self.cb(self, flow, s, s.d.get(("trace",), ()), "return", where, ("return", value, where))

    def forget(self, flow, s, sym):
        pass

    def at_loop_head(self, flow, s, hv, tag, info):
        """Record that this path reached the loop, with the values the loop variables had on arrival."""
        if info.get("entry"):
            vals = tuple(sorted((name, s.env.get(vid) or name) for vid, name in (hv or {}).items()))
            self._add(s, ("loop", tag, vals, "", flow.cur_func().name))


def run_traces(model, func, on_region_end, **kw):
    dom = TraceDomain(model, func, on_region_end, **kw)
    fl = Flow(model, func, dom, max_depth=kw.get("max_depth", 4) if False else 4)
    fl.run()
    return dom


def fmt(trace, limit=12):
    out = []
    for e in trace[-limit:]:
        if e[0] == "store":
            out.append("%s %s %s" % (e[1], e[2], e[3]))
        elif e[0] in ("call", "resume"):
            out.append("%s%s(%s)" % ("<resumed from> " if e[0] == "resume" else "", e[1], ", ".join(e[2])))
        elif e[0] == "assume":
            out.append("[%s%s]" % ("" if e[2] else "not ", e[1]))
    return out
