"""ASM - stack-effect interpretation of the assembled context switch.

The object code of cmi_coroutine_context_switch / cmi_coroutine_trampoline is
straight-line, so its effect on the stack and the registers does not depend
on data.  The interpreter tracks, relative to rsp at entry:

  off      current rsp offset (bytes; negative = pushed)
  slots    byte offset -> what was stored there (('reg', r) | 'rflags' | 'mxcsr' | 'pad')
  regs     register -> symbolic content ('<r>@entry', ('slot', off), ...)
  dirty    frame slots written again after they were saved

Anything outside the supported mnemonic set is analysis-broken, except a
second write to an already saved frame slot, which is a violation in itself
(the value restored is no longer the value at the switch).
"""
import re

from ..frontend import AnalysisBroken

CALLEE_SAVED = ("rbx", "rbp", "r12", "r13", "r14", "r15")       # SysV psABI 3.2.1
REG32 = {"eax": "rax", "ebx": "rbx", "ecx": "rcx", "edx": "rdx", "esi": "rsi", "edi": "rdi", "ebp": "rbp", "r8d": "r8",
         "r9d": "r9", "r10d": "r10", "r11d": "r11", "r12d": "r12", "r13d": "r13", "r14d": "r14", "r15d": "r15"}
REG64 = {"rax", "rbx", "rcx", "rdx", "rsi", "rdi", "rbp", "rsp", "r8", "r9", "r10", "r11", "r12", "r13", "r14", "r15"}


def parse_disasm(text):
    """{symbol: [(addr, mnemonic, [operands], raw)]}"""
    funcs = {}
    cur = None
    for line in text.splitlines():
        m = re.match(r"^[0-9a-f]+ <(\w+)>:", line)
        if m:
            cur = m.group(1)
            funcs[cur] = []
            continue
        m = re.match(r"^\s*([0-9a-f]+):\s+(\S+)\s*(.*)$", line)
        if m and cur is not None:
            ops = [o.strip() for o in m.group(3).split(",")] if m.group(3).strip() else []
            funcs[cur].append((int(m.group(1), 16), m.group(2), ops, line.strip()))
    return funcs


def memop(op):
    """'QWORD PTR [rsp+0x4]' -> (size, base, disp) or None"""
    m = re.match(r"^(?:(BYTE|WORD|DWORD|QWORD) PTR )?\[(\w+)(?:([+-])(0x[0-9a-f]+|\d+))?\]$", op)
    if not m:
        return None
    size = {"BYTE": 1, "WORD": 2, "DWORD": 4, "QWORD": 8, None: 8}[m.group(1)]
    disp = int(m.group(4), 0) if m.group(4) else 0
    if m.group(3) == "-":
        disp = -disp
    return size, m.group(2), disp


class Switch:
    def __init__(self, insns):
        self.insns = insns
        self.findings = []
        self.saved = {}        # frame offset (relative to saved rsp) -> item
        self.restored = {}
        self.notes = []

    def run(self):
        off = 0
        slots = {}
        written_regs = set()
        dirty = []
        phase = "save"
        save_rsp = None
        saved_regs_order = []
        clobbered_after_restore = set()
        rax_from = None
        new_off = None
        rdx_written = False
        rsi_written = rdi_written = False
        skip_until, skipped, skip_mask, zero_of = None, [], None, None
        scratch, vals = {}, {}
        for addr, mn, ops, raw in self.insns:
            if phase == "save":
                if mn in ("pushf", "pushfq"):
                    off -= 8
                    slots[off] = "rflags"
                elif mn == "push":
                    if ops[0] not in REG64:
                        raise AnalysisBroken("context switch: unsupported push operand in '%s'" % raw)
                    off -= 8
                    if ops[0] in written_regs:
                        self.findings.append(("save:clobbered", "%s is written before it is saved (%s)" % (ops[0], raw)))
                    slots[off] = ("reg", ops[0])
                    saved_regs_order.append(ops[0])
                elif mn == "sub" and ops[0] == "rsp":
                    off -= int(ops[1], 0)
                elif mn == "add" and ops[0] == "rsp":
                    off += int(ops[1], 0)
                elif mn == "stmxcsr":
                    mo = memop(ops[0])
                    if not mo or mo[1] != "rsp":
                        raise AnalysisBroken("context switch: unsupported stmxcsr operand '%s'" % raw)
                    slots[off + mo[2]] = "mxcsr"
                elif mn == "mov":
                    d, s_ = ops
                    md = memop(d)
                    if md and md[1] == "rdi" and s_ == "rsp":
                        if rdi_written:
                            self.findings.append(("save:rdi", "rdi is modified before the old stack pointer is stored through it"))
                        save_rsp = off
                        phase = "switch"
                    elif md and md[1] == "rsp":
                        tgt = off + md[2]
                        if tgt in slots:
                            dirty.append((tgt, raw))
                        slots[tgt] = ("val", s_)
                    elif d in REG32 and memop(s_) and memop(s_)[1] == "rsp" and REG32[d] not in CALLEE_SAVED:
                        # a scratch register loaded from the frame: if the slot is the MXCSR image just stored, the register
                        # carries the outgoing context's (= at restore time: the live) MXCSR across the switch
                        vals[d] = ("live",) if slots.get(off + memop(s_)[2]) == "mxcsr" else None
                        written_regs.add(REG32[d])
                        if REG32[d] == "rdx":
                            rdx_written = True
                        if REG32[d] == "rsi":
                            rsi_written = True
                        if REG32[d] == "rdi":
                            rdi_written = True
                    elif d in REG64:
                        written_regs.add(d)
                        for r32_, r64_ in REG32.items():
                            if r64_ == d:
                                vals.pop(r32_, None)
                        if d == "rdx":
                            rdx_written = True
                        if d == "rsi":
                            rsi_written = True
                        if d == "rdi":
                            rdi_written = True
                    else:
                        raise AnalysisBroken("context switch: unsupported mov '%s'" % raw)
                elif mn in ("and", "or", "xor", "add", "sub", "not", "neg", "inc", "dec", "shl", "shr", "btr", "bts"):
                    md = memop(ops[0]) if ops else None
                    if md and md[1] == "rsp":
                        tgt = off + md[2]
                        # a read-modify-write of a frame slot: the saved image is altered
                        dirty.append((tgt, raw))
                        benign = False
                        if mn == "and" and slots.get(tgt) == "mxcsr" and md[0] == 4:
                            try:
                                imm = int(ops[1], 0) & 0xFFFFFFFF
                            except ValueError:
                                imm = 0
                            # MXCSR control bits: DAZ(6), exception masks(7-12), rounding(13-14), FTZ(15)
                            if imm & 0xFFC0 == 0xFFC0:
                                benign = True
                                self.notes.append("saved MXCSR image masked with %#x: all control bits kept, only "
                                                  "status flags dropped" % imm)
                        if not benign:
                            self.findings.append(("save:altered", "the saved frame is modified after the save by '%s': the "
                                                  "state restored later is not the state at the switch" % raw))
                    elif ops and ops[0] in REG64:
                        written_regs.add(ops[0])
                        for r32_, r64_ in REG32.items():
                            if r64_ == ops[0]:
                                vals.pop(r32_, None)
                        if ops[0] == "rdx":
                            rdx_written = True
                    else:
                        raise AnalysisBroken("context switch: unsupported instruction '%s'" % raw)
                else:
                    raise AnalysisBroken("context switch: unsupported instruction '%s'" % raw)
            elif phase == "switch":
                if mn == "mov" and ops[0] == "rsp":
                    ms = memop(ops[1])
                    if not ms or ms[1] != "rsi":
                        raise AnalysisBroken("context switch: new stack pointer not loaded through rsi ('%s')" % raw)
                    if rsi_written:
                        self.findings.append(("switch:rsi", "rsi is modified before the new stack pointer is loaded through it"))
                    new_off = 0      # offsets now relative to the loaded stack pointer, which equals a saved rsp
                    phase = "restore"
                    self.saved = {k - save_rsp: v for k, v in slots.items()}
                else:
                    raise AnalysisBroken("context switch: unexpected instruction between save and switch '%s'" % raw)
            elif phase == "restore":
                if skip_until is not None and addr == skip_until:
                    # end of a conditionally skipped region: it may hold the MXCSR reload and nothing else
                    only_ld = [i_ for i_ in skipped if i_[1] != "ldmxcsr"]
                    if only_ld:
                        raise AnalysisBroken("context switch: a conditional jump skips '%s' in the restore sequence" % only_ld[0][3])
                    CONTROL = 0xffc0
                    if skip_mask is None:
                        raise AnalysisBroken("context switch: the condition that skips the MXCSR reload is not understood")
                    if (skip_mask & CONTROL) != CONTROL:
                        self.findings.append(("restore:mxcsr-conditional", "MXCSR is reloaded only when the live and the saved value "
                                              "differ in the bits 0x%x; the control bits are 0x%x (exception masks 0x1f80, rounding "
                                              "control 0x6000, flush-to-zero 0x8000, denormals-are-zero 0x0040): a context whose "
                                              "bits 0x%x differ from the previous one's resumes with the other context's rounding "
                                              "mode / FTZ / DAZ" % (skip_mask, CONTROL, CONTROL & ~skip_mask)))
                    skip_until = None
                if skip_until is not None:
                    skipped.append((addr, mn, ops, raw))
                    if mn != "ldmxcsr":
                        continue
                if mn == "stmxcsr":
                    mo = memop(ops[0])
                    if not mo or mo[1] != "rsp":
                        raise AnalysisBroken("context switch: unsupported stmxcsr operand in restore '%s'" % raw)
                    tgt = new_off + mo[2]
                    item = self.saved.get(tgt)
                    if item not in (None, "pad") or any(self.saved.get(tgt + b_) not in (None, "pad") for b_ in (0,)) or \
                            (self.saved.get(tgt - 4) == "mxcsr" and False):
                        self.findings.append(("restore:slot-overwritten", "the live MXCSR is stored over frame offset %d, which holds %s "
                                              "that is still to be restored" % (tgt, _show(item))))
                    scratch[tgt] = ("live",)
                elif mn == "mov" and ops[0] in REG32 and memop(ops[1]) and memop(ops[1])[1] == "rsp":
                    o_ = new_off + memop(ops[1])[2]
                    vals[ops[0]] = scratch.get(o_) or (("saved",) if self.saved.get(o_) == "mxcsr" else None)
                    r64 = REG32[ops[0]]
                    if r64 in CALLEE_SAVED:
                        self.findings.append(("restore:clobbered", "%s is overwritten after it was restored (%s)" % (r64, raw)))
                    if r64 == "rdx":
                        rdx_written = True
                elif mn in ("xor", "and") and ops[0] in REG32:
                    a_ = vals.get(ops[0])
                    if memop(ops[1]) and memop(ops[1])[1] == "rsp":
                        o_ = new_off + memop(ops[1])[2]
                        b_ = scratch.get(o_) or (("saved",) if self.saved.get(o_) == "mxcsr" else None)
                    elif ops[1] in REG32:
                        b_ = vals.get(ops[1])
                    else:
                        try:
                            b_ = int(ops[1], 0)
                        except ValueError:
                            b_ = None
                    if mn == "xor":
                        vals[ops[0]] = ("xor", a_, b_) if a_ is not None and b_ is not None and not isinstance(b_, int) else None
                    else:
                        vals[ops[0]] = ("and", a_, b_) if a_ is not None and isinstance(b_, int) else None
                    r64 = REG32[ops[0]]
                    if r64 in CALLEE_SAVED:
                        self.findings.append(("restore:clobbered", "%s is overwritten after it was restored (%s)" % (r64, raw)))
                    if r64 == "rdx":
                        rdx_written = True
                elif mn == "test" and ops[0] in REG32:
                    a_ = vals.get(ops[0])
                    if ops[1] in REG32:
                        zero_of = a_ if ops[1] == ops[0] else None
                    else:
                        try:
                            zero_of = ("and", a_, int(ops[1], 0)) if a_ is not None else None
                        except ValueError:
                            zero_of = None
                elif mn == "cmp" and ops[0] in REG32 and ops[1] in REG32:
                    a_, b_ = vals.get(ops[0]), vals.get(ops[1])
                    zero_of = None
                    if a_ and b_ and a_[0] == "and" and b_[0] == "and" and a_[2] == b_[2] and {a_[1], b_[1]} == {("live",), ("saved",)}:
                        zero_of = ("and", ("xor", ("live",), ("saved",)), a_[2])
                elif mn in ("je", "jz"):
                    try:
                        skip_until = int(ops[0].split()[0], 16)
                    except (ValueError, IndexError):
                        raise AnalysisBroken("context switch: jump target not understood '%s'" % raw)
                    if skip_until <= addr:
                        raise AnalysisBroken("context switch: backward jump '%s'" % raw)
                    skipped = []
                    skip_mask = None
                    z = zero_of
                    if z is not None and z[0] == "xor" and {z[1], z[2]} == {("live",), ("saved",)}:
                        skip_mask = 0xffffffff
                    elif z is not None and z[0] == "and" and z[1] is not None and z[1][0] == "xor" and \
                            {z[1][1], z[1][2]} == {("live",), ("saved",)}:
                        skip_mask = z[2]
                elif mn == "pop":
                    item = self.saved.get(new_off)
                    self.restored[new_off] = ("reg", ops[0])
                    if item != ("reg", ops[0]):
                        self.findings.append(("restore:mismatch", "%s is restored from the slot that holds %s (frame offset %d)"
                                              % (ops[0], _show(item), new_off)))
                    new_off += 8
                elif mn == "ldmxcsr":
                    mo = memop(ops[0])
                    if not mo or mo[1] != "rsp":
                        raise AnalysisBroken("context switch: unsupported ldmxcsr operand '%s'" % raw)
                    item = self.saved.get(new_off + mo[2])
                    self.restored[new_off + mo[2]] = "mxcsr"
                    if item != "mxcsr":
                        self.findings.append(("restore:mismatch", "MXCSR is loaded from frame offset %d, which holds %s"
                                              % (new_off + mo[2], _show(item))))
                elif mn == "add" and ops[0] == "rsp":
                    new_off += int(ops[1], 0)
                elif mn == "sub" and ops[0] == "rsp":
                    new_off -= int(ops[1], 0)
                elif mn in ("popf", "popfq"):
                    item = self.saved.get(new_off)
                    self.restored[new_off] = "rflags"
                    if item != "rflags":
                        self.findings.append(("restore:mismatch", "flags are restored from the slot that holds %s" % _show(item)))
                    new_off += 8
                elif mn == "mov" and ops[0] in REG64:
                    if ops[0] == "rax" and ops[1] == "rdx":
                        rax_from = "rdx" if not rdx_written else "rdx(modified)"
                    elif ops[0] in CALLEE_SAVED:
                        self.findings.append(("restore:clobbered", "%s is overwritten after it was restored (%s)" % (ops[0], raw)))
                    elif ops[0] == "rdx":
                        rdx_written = True
                    elif ops[0] == "rax":
                        rax_from = ops[1]
                elif mn == "xor" and ops[0] in REG64:
                    if ops[0] in CALLEE_SAVED:
                        self.findings.append(("restore:clobbered", "%s is overwritten after it was restored (%s)" % (ops[0], raw)))
                    if ops[0] == "rax":
                        rax_from = "0"
                    if ops[0] == "rdx":
                        rdx_written = True
                elif mn == "ret":
                    if new_off != -save_rsp:
                        self.findings.append(("restore:stack", "at 'ret' the stack pointer is %d bytes from the saved frame's "
                                              "return address (net stack effect not zero)" % (-save_rsp - new_off)))
                    phase = "done"
                else:
                    raise AnalysisBroken("context switch: unsupported instruction in restore '%s'" % raw)
            else:
                raise AnalysisBroken("context switch: code after ret")
        if phase != "done":
            raise AnalysisBroken("context switch: did not reach ret (phase %s)" % phase)
        # every saved item restored, and from its own slot
        for k, v in self.saved.items():
            if v == "pad":
                continue
            if self.restored.get(k) != v and not (isinstance(v, tuple) and v[0] == "val"):
                self.findings.append(("restore:missing", "%s saved at frame offset %d is not restored from there" % (_show(v), k)))
        regs = {v[1] for v in self.saved.values() if isinstance(v, tuple) and v[0] == "reg"}
        for r in CALLEE_SAVED:
            if r not in regs:
                self.findings.append(("abi:not-saved", "callee-saved register %s is not saved across the switch" % r))
        if "mxcsr" not in self.saved.values():
            self.findings.append(("abi:mxcsr", "the SSE control/status register MXCSR is not saved across the switch"))
        if rax_from != "rdx":
            self.findings.append(("message", "the value passed in the third argument is not returned (rax <- %s)" % rax_from))
        self.frame_size = -save_rsp
        self.layout = sorted(self.saved.items())
        return self


def _show(item):
    if item is None:
        return "nothing saved"
    if isinstance(item, tuple):
        return item[1]
    return item


class Trampoline:
    def __init__(self, insns):
        self.insns = insns
        self.findings = []

    def run(self):
        """Entered by 'ret' from the context switch with rsp = base (all 9 slots consumed)."""
        regs = {r: r for r in REG64}
        off = 0                       # relative to stack base (16-aligned)
        called = None
        jumped = None
        self.call_align = None
        self.jmp_align = None
        self.args_at_call = None
        for addr, mn, ops, raw in self.insns:
            if mn == "mov" and ops[0] in REG64 and ops[1] in REG64:
                regs[ops[0]] = regs[ops[1]]
            elif mn == "xor" and ops[0] == ops[1]:
                regs[ops[0]] = "0"
            elif mn == "call":
                called = regs.get(ops[0], ops[0])
                self.call_align = off % 16
                self.args_at_call = (regs["rdi"], regs["rsi"])
                regs["rax"] = "retval"
                for r in ("rcx", "rdx", "rsi", "rdi", "r8", "r9", "r10", "r11"):
                    regs[r] = "clobbered:" + r
            elif mn == "push":
                off -= 8
            elif mn == "pop":
                off += 8
            elif mn == "sub" and ops[0] == "rsp":
                off -= int(ops[1], 0)
            elif mn == "add" and ops[0] == "rsp":
                off += int(ops[1], 0)
            elif mn == "jmp":
                jumped = regs.get(ops[0], ops[0])
                self.jmp_align = off % 16
                self.arg_at_jmp = regs["rdi"]
            else:
                raise AnalysisBroken("trampoline: unsupported instruction '%s'" % raw)
        self.called, self.jumped = called, jumped
        return self
