"""XS - a small abstract executor for initialisation routines: straight-line code, conditionals and loops whose conditions
evaluate to constants (counted loops are unrolled), local scalars, local arrays and pointers into them; values are
integers or opaque symbols.  Calls are handed to a hook that models their effect (e.g. "returns the k-th output of the
mixer").  Stores to non-local lvalues are recorded in order under their canonical name.  Anything outside this fragment
raises Undecided, which the rule turns into analysis-broken - never into a pass.

This is not running the program: no input is concrete except literals, calls are not executed, and the result is the
sequence of abstract effects of one function on symbolic inputs.
"""
from ..astutil import kids, strip, callee_ref, render, is_null_expr


class Undecided(Exception):
    pass


class NeedDecision(Exception):
    pass


class _Break(Exception):
    pass


class _Continue(Exception):
    pass


class _Return(Exception):
    def __init__(self, v):
        self.v = v


class Interp:
    def __init__(self, cx, func, call_hook, max_steps=20000):
        self.cx, self.f, self.hook = cx, func, call_hook
        self.env = {}          # local id -> value
        self.arrays = {}       # local id -> list of values
        self.effects = []      # ("store", canonical lvalue, value) | ("call", name, args)
        self.globals = {}      # canonical lvalue -> last value stored
        self.steps = 0
        self.max_steps = max_steps
        self.ret = None
        self.oracle = None     # prescribed outcomes of conditions on symbolic values (run_all)
        self.decisions = 0
        self.taken = []
        for p in func.params:
            self.env[p["id"]] = "param:" + p["name"]

    def run(self):
        try:
            self.stmt(self.f.body)
        except _Return as r:
            self.ret = r.v
        return self

    # -- values ---------------------------------------------------------------
    def truth(self, v):
        if isinstance(v, bool):
            return v
        if isinstance(v, int):
            return v != 0
        # a condition on a symbolic value: follow the decision the driver prescribes for this run (see run_all)
        if self.oracle is not None:
            if self.decisions < len(self.oracle):
                d = self.oracle[self.decisions]
                self.decisions += 1
                self.taken.append((v, d))
                return d
            raise NeedDecision()
        raise Undecided("condition on a symbolic value %r" % (v,))

    def lvalue(self, n):
        """('local', id) | ('elem', array id, index) | ('global', canonical name)"""
        n = strip(n, casts=True)
        k = n["kind"]
        if k == "DeclRefExpr":
            rid = n["ref"]["id"]
            if rid in self.env or rid in self.arrays or n["ref"].get("kind") == "ParmVarDecl":
                return ("local", rid)
            if str(rid) in self._declared:
                return ("local", rid)
            return ("global", n["ref"]["name"])
        if k == "ArraySubscriptExpr":
            b = self.ev(kids(n)[0])
            i = self.ev(kids(n)[1])
            if isinstance(b, tuple) and b[0] == "ptr" and isinstance(i, int):
                return ("elem", b[1], b[2] + i)
            return ("global", self.cx.canon(n))
        if k == "UnaryOperator" and n.get("opcode") == "*":
            p = self.ev(kids(n)[0])
            if isinstance(p, tuple) and p[0] == "ptr":
                return ("elem", p[1], p[2])
            return ("global", self.cx.canon(n))
        if k == "MemberExpr":
            return ("global", self.cx.canon(n))
        raise Undecided("lvalue %s" % render(n))

    def load(self, lv):
        if lv[0] == "local":
            if lv[1] in self.arrays:
                return ("ptr", lv[1], 0)
            if lv[1] not in self.env:
                raise Undecided("read of an unset local")
            return self.env[lv[1]]
        if lv[0] == "elem":
            arr = self.arrays.get(lv[1])
            if arr is None or not (0 <= lv[2] < len(arr)):
                raise Undecided("array access out of the modelled range")
            return arr[lv[2]]
        return self.globals.get(lv[1], "init:" + lv[1])

    def store(self, lv, v):
        if lv[0] == "local":
            self.env[lv[1]] = v
        elif lv[0] == "elem":
            arr = self.arrays.get(lv[1])
            if arr is None or not (0 <= lv[2] < len(arr)):
                raise Undecided("array store out of the modelled range")
            arr[lv[2]] = v
        else:
            self.globals[lv[1]] = v
            self.effects.append(("store", lv[1], v))

    _declared = set()

    def ev(self, n):
        self.steps += 1
        if self.steps > self.max_steps:
            raise Undecided("too many steps")
        if is_null_expr(n):
            return 0
        n = strip(n, casts=True)
        k = n["kind"]
        ch = kids(n)
        if k == "IntegerLiteral":
            return int(n["value"])
        if k in ("DeclRefExpr", "ArraySubscriptExpr", "MemberExpr"):
            if k == "DeclRefExpr" and n["ref"].get("kind") == "EnumConstantDecl":
                return "enum:" + n["ref"]["name"]
            if k == "DeclRefExpr" and n["ref"].get("kind") == "FunctionDecl":
                return "fn:" + n["ref"]["name"]
            return self.load(self.lvalue(n))
        if k == "UnaryOperator":
            op = n.get("opcode")
            if op in ("++", "--"):
                lv = self.lvalue(ch[0])
                old = self.load(lv)
                d = 1 if op == "++" else -1
                if isinstance(old, int):
                    new = old + d
                elif isinstance(old, tuple) and old[0] == "ptr":
                    new = ("ptr", old[1], old[2] + d)
                else:
                    new = ("sym", old, d)
                self.store(lv, new)
                return old if n.get("isPostfix") else new
            if op == "*":
                return self.load(self.lvalue(n))
            if op == "&":
                lv = self.lvalue(ch[0])
                if lv[0] == "elem":
                    return ("ptr", lv[1], lv[2])
                if lv[0] == "local" and lv[1] in self.arrays:
                    return ("ptr", lv[1], 0)
                return "&" + (lv[1] if lv[0] == "global" else str(lv[1]))
            v = self.ev(ch[0])
            if op == "!":
                return 0 if self.truth(v) else 1
            if op == "-" and isinstance(v, int):
                return -v
            if op == "~" and isinstance(v, int):
                return ~v
            return ("op", op, v)
        if k in ("BinaryOperator", "CompoundAssignOperator"):
            op = n["opcode"]
            if op == "=":
                v = self.ev(ch[1])
                self.store(self.lvalue(ch[0]), v)
                return v
            if k == "CompoundAssignOperator":
                lv = self.lvalue(ch[0])
                v = self.binop(op[:-1], self.load(lv), self.ev(ch[1]))
                self.store(lv, v)
                return v
            if op == "&&":
                a = self.ev(ch[0])
                return 0 if not self.truth(a) else (1 if self.truth(self.ev(ch[1])) else 0)
            if op == "||":
                a = self.ev(ch[0])
                return 1 if self.truth(a) else (1 if self.truth(self.ev(ch[1])) else 0)
            if op == ",":
                self.ev(ch[0])
                return self.ev(ch[1])
            return self.binop(op, self.ev(ch[0]), self.ev(ch[1]))
        if k == "ConditionalOperator":
            return self.ev(ch[1]) if self.truth(self.ev(ch[0])) else self.ev(ch[2])
        if k == "CallExpr":
            nm = callee_ref(n)
            args = [self.ev(a) for a in ch[1:]]
            self.effects.append(("call", nm, args))
            return self.hook(self, nm, args, n)
        if k == "UnaryExprOrTypeTraitExpr":
            return "sizeof"
        if k in ("ParenExpr",):
            return self.ev(ch[0])
        raise Undecided("expression %s" % render(n)[:60])

    def binop(self, op, a, b):
        if isinstance(a, int) and isinstance(b, int):
            try:
                return {"+": a + b, "-": a - b, "*": a * b, "<": int(a < b), "<=": int(a <= b), ">": int(a > b),
                        ">=": int(a >= b), "==": int(a == b), "!=": int(a != b), "<<": a << b, ">>": a >> b,
                        "&": a & b, "|": a | b, "^": a ^ b, "/": a // b if b else 0, "%": a % b if b else 0}[op]
            except KeyError:
                raise Undecided("operator %s" % op)
        if isinstance(a, tuple) and a[0] == "ptr":
            if isinstance(b, int) and op in ("+", "-"):
                return ("ptr", a[1], a[2] + (b if op == "+" else -b))
            if isinstance(b, tuple) and b[0] == "ptr" and a[1] == b[1]:
                if op == "-":
                    return a[2] - b[2]
                if op in ("<", "<=", ">", ">=", "==", "!="):
                    return self.binop(op, a[2], b[2])
        if op in ("==", "!=") and a == b and not isinstance(a, tuple):
            return 1 if op == "==" else 0
        return ("op", op, a, b)

    # -- statements -------------------------------------------------------------
    def stmt(self, s):
        k = s["kind"]
        from ..vals import is_assert_stmt
        if is_assert_stmt(s):
            return
        if k == "CompoundStmt":
            for c in kids(s):
                self.stmt(c)
        elif k == "DeclStmt":
            for d in kids(s):
                if d["kind"] != "VarDecl":
                    continue
                self._declared = self._declared | {str(d["id"])}
                t = d.get("type") or ""
                import re
                mm = re.search(r"\[(\d+)\]", t)
                if mm and d.get("storageClass") != "static":
                    nel = int(mm.group(1))
                    vals = ["uninit"] * nel
                    ini = [c for c in kids(d)]
                    if ini and ini[0]["kind"] == "InitListExpr":
                        for i_, e in enumerate(kids(ini[0])[:nel]):
                            vals[i_] = self.ev(e)
                    self.arrays[d["id"]] = vals
                elif d.get("storageClass") == "static":
                    continue
                elif kids(d):
                    self.env[d["id"]] = self.ev(kids(d)[0])
                else:
                    self.env[d["id"]] = "uninit"
        elif k == "IfStmt":
            ch = kids(s)
            if self.truth(self.ev(ch[0])):
                self.stmt(ch[1])
            elif len(ch) > 2:
                self.stmt(ch[2])
        elif k in ("ForStmt", "WhileStmt"):
            ch = kids(s)
            if k == "ForStmt":
                init, cond, inc, body = ch[0], ch[2], ch[3], ch[4]
                if init["kind"] != "Null":
                    self.stmt(init) if init["kind"] == "DeclStmt" else self.ev(init)
            else:
                init, cond, inc, body = None, ch[0], None, ch[1]
            n_it = 0
            while True:
                if cond["kind"] != "Null" and not self.truth(self.ev(cond)):
                    break
                n_it += 1
                if n_it > 4096:
                    raise Undecided("loop does not end within 4096 rounds")
                try:
                    self.stmt(body)
                except _Break:
                    break
                except _Continue:
                    pass
                if inc is not None and inc["kind"] != "Null":
                    self.ev(inc)
        elif k == "DoStmt":
            ch = kids(s)
            # NDEBUG assertion form or a real do-while
            body, cond = ch[0], ch[1]
            n_it = 0
            while True:
                n_it += 1
                if n_it > 4096:
                    raise Undecided("loop does not end within 4096 rounds")
                try:
                    self.stmt(body)
                except _Break:
                    break
                except _Continue:
                    pass
                if not self.truth(self.ev(cond)):
                    break
        elif k == "ReturnStmt":
            raise _Return(self.ev(kids(s)[0]) if kids(s) else None)
        elif k == "BreakStmt":
            raise _Break()
        elif k == "ContinueStmt":
            raise _Continue()
        elif k == "NullStmt":
            return
        else:
            self.ev(s)


def run_all(cx, func, make_hook, max_paths=16):
    """Execute `func` once per combination of outcomes of its conditions on symbolic values (conditions on constants are
    decided as usual).  make_hook() returns a fresh call hook (with its own state) for each run.  Returns the list of
    finished interpreters, each with .taken = [(condition value, outcome)]; raises Undecided beyond max_paths paths."""
    done = []
    work = [[]]
    while work:
        oracle = work.pop()
        ip = Interp(cx, func, make_hook())
        ip.oracle = list(oracle)
        try:
            ip.run()
        except NeedDecision:
            work.append(oracle + [True])
            work.append(oracle + [False])
            if len(work) + len(done) > max_paths:
                raise Undecided("more than %d paths through conditions on symbolic values" % max_paths)
            continue
        done.append(ip)
    return done
