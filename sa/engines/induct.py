"""IDX - object-index analysis of code that threads a list through a freshly allocated chunk.

The chunk has S = incr_sz bytes, objects have O = obj_sz bytes and N = incr_num = floor(S / O) of them fit
(N * O <= S < (N + 1) * O; these relations are established separately from cmi_mempool_initialize).
Every pointer into the chunk is tracked as a polynomial byte offset from the chunk start over the symbols
O, S, N and one iteration counter per loop.  Loops must be made of induction variables (each loop-assigned
variable advances by a loop-invariant step); the loop guard yields facts about the iteration counter, exact
for counting guards and the tightest sound ones for address guards (K*O < S gives K <= N, K*O <= S gives
K <= N - ... see _facts_from).  Every store through a chunk pointer is an obligation: the target is object
number K with 0 <= K <= N - 1 (so the object lies inside the chunk), a stored link is NULL or again such an
object, and the loop pointer follows the links it has written.  Obligations are decided by Fourier-Motzkin
elimination over the rationals (sound for the integers).  Anything outside this fragment makes the analysis
broken (exit 2), never a pass.
"""
from fractions import Fraction

from ..astutil import kids, strip, walk, callee_ref, render, loc, is_null_expr
from ..frontend import AnalysisBroken


# ---------------------------------------------------------------- polynomials
class Poly(dict):
    """monomial (sorted tuple of symbols) -> Fraction"""

    @staticmethod
    def const(c):
        p = Poly()
        if c != 0:
            p[()] = Fraction(c)
        return p

    @staticmethod
    def sym(s):
        p = Poly()
        p[(s,)] = Fraction(1)
        return p

    def copy(self):
        p = Poly()
        p.update(self)
        return p

    def __add__(self, o):
        p = self.copy()
        for k, v in o.items():
            nv = p.get(k, 0) + v
            if nv == 0:
                p.pop(k, None)
            else:
                p[k] = nv
        return p

    def scale(self, c):
        p = Poly()
        if c != 0:
            for k, v in self.items():
                p[k] = v * c
        return p

    def __sub__(self, o):
        return self + o.scale(-1)

    def __mul__(self, o):
        p = Poly()
        for k1, v1 in self.items():
            for k2, v2 in o.items():
                k = tuple(sorted(k1 + k2))
                nv = p.get(k, 0) + v1 * v2
                if nv == 0:
                    p.pop(k, None)
                else:
                    p[k] = nv
        return p

    def symbols(self):
        return {s for k in self for s in k}

    def subst(self, sym, poly):
        out = Poly()
        for k, v in self.items():
            term = Poly.const(v)
            for s in k:
                term = term * (poly if s == sym else Poly.sym(s))
            out = out + term
        return out

    def is_const(self):
        return all(k == () for k in self)

    def show(self):
        if not self:
            return "0"
        parts = []
        for k in sorted(self):
            v = self[k]
            name = "*".join(k)
            if k == ():
                parts.append(str(v))
            elif v == 1:
                parts.append(name)
            else:
                parts.append("%s*%s" % (v, name))
        return " + ".join(parts)


class Val:
    __slots__ = ("kind", "p", "esz")

    def __init__(self, kind, p=None, esz=1):
        self.kind, self.p, self.esz = kind, p, esz

    def show(self):
        if self.kind == "ptr":
            return "chunk+" + self.p.show()
        if self.kind == "int":
            return self.p.show()
        return self.kind


NULL = Val("null")
UNK = Val("unk")


def _elem_size(t):
    t = (t or "").replace("const ", "").strip()
    if t.endswith("*"):
        inner = t[:-1].strip()
        if inner.endswith("*"):
            return 8
        if inner in ("char", "unsigned char", "signed char", "uint8_t", "void"):
            return 1
        if inner in ("uint64_t", "unsigned long", "long", "int64_t", "size_t", "uintptr_t", "double"):
            return 8
        if inner in ("uint32_t", "unsigned int", "int", "int32_t", "float"):
            return 4
        if inner in ("uint16_t", "unsigned short", "short"):
            return 2
    return None


# ---------------------------------------------------------------- linear facts and Fourier-Motzkin
def int_value_safe(n):
    from ..astutil import int_value
    try:
        return int_value(strip(n, casts=True))
    except Exception:
        return None


def _linear(poly, what):
    """poly over count symbols -> ({sym: coeff}, const); AnalysisBroken if not linear."""
    co, c0 = {}, Fraction(0)
    for k, v in poly.items():
        if k == ():
            c0 = v
        elif len(k) == 1:
            co[k[0]] = v
        else:
            raise AnalysisBroken("IDX: non-linear count expression in %s: %s" % (what, poly.show()))
    return co, c0


def infeasible(cons):
    """cons: list of (coeffs, const) meaning sum + const <= 0.  True iff no rational solution."""
    cons = [(dict(c), k) for c, k in cons]
    syms = sorted({s for c, _ in cons for s in c})
    for s in syms:
        pos = [(c, k) for c, k in cons if c.get(s, 0) > 0]
        neg = [(c, k) for c, k in cons if c.get(s, 0) < 0]
        rest = [(c, k) for c, k in cons if c.get(s, 0) == 0]
        for cp, kp in pos:
            for cn, kn in neg:
                a, b = cp[s], -cn[s]
                nc = {}
                for t in set(cp) | set(cn):
                    if t == s:
                        continue
                    v = cp.get(t, 0) * b + cn.get(t, 0) * a
                    if v != 0:
                        nc[t] = v
                rest.append((nc, kp * b + kn * a))
        cons = rest
        if len(cons) > 4000:
            raise AnalysisBroken("IDX: constraint blow-up")
    return any(k > 0 for c, k in cons if not c)


class Facts:
    """Conjunction of integer linear constraints form <= 0 over count symbols."""

    def __init__(self, cons=None, notes=None):
        self.cons = list(cons or [])
        self.notes = list(notes or [])

    def add_le0(self, poly, note=None):
        co, c0 = _linear(poly, "fact")
        f = Facts(self.cons + [(co, c0)], self.notes + ([note] if note else []))
        return f

    def feasible(self):
        return not infeasible(self.cons)

    def proves_le0(self, poly):
        """facts => poly <= 0 (integers: refute poly >= 1)."""
        co, c0 = _linear(poly, "goal")
        neg = ({s: -v for s, v in co.items()}, 1 - c0)      # -(poly) + 1 <= 0
        return infeasible(self.cons + [neg])


# ---------------------------------------------------------------- the interpreter
COUNT_SYMS_PREFIX = ("it", "N")


class Threading:
    """Interpret the statements of `func` that follow the chunk allocation."""

    def __init__(self, m, func, cx, pool, n_ge_1=True):
        self.m, self.f, self.cx, self.mp = m, func, cx, pool
        self.O, self.S, self.N = Poly.sym("O"), Poly.sym("S"), Poly.sym("N")
        self.env = {}
        self.mem = {}            # offset key -> Val (last store through a chunk pointer, straight-line)
        self.head = None
        self.obligations = []    # (description, ok, where, detail)
        self.nloops = 0
        self.loops = []
        base = Facts()
        if n_ge_1:
            base = base.add_le0(Poly.const(1) - self.N, "N >= 1 (obj_num > 0 asserted and incr_sz >= obj_num*obj_sz)")
        self.facts = base
        self.null_terminated = []

    # -- expressions ---------------------------------------------------
    def ev(self, n):
        n0 = n
        k = n["kind"]
        if k in ("ParenExpr",):
            return self.ev(kids(n)[0])
        if k in ("ImplicitCastExpr", "CStyleCastExpr"):
            v = self.ev(kids(n)[-1])
            if v.kind == "ptr":
                es = _elem_size(n.get("type"))
                return Val("ptr", v.p, es if es is not None else v.esz)
            if v.kind == "null":
                return v
            if is_null_expr(n):
                return NULL
            return v
        if is_null_expr(n):
            return NULL
        if k == "IntegerLiteral":
            return Val("int", Poly.const(int(n["value"])))
        if k == "DeclRefExpr":
            nm = n["ref"]["name"]
            if nm in self.env:
                return self.env[nm]
            return UNK
        if k == "MemberExpr":
            c = self.cx.canon(n)
            if c == self.mp + "->obj_sz":
                return Val("int", self.O)
            if c == self.mp + "->incr_sz":
                return Val("int", self.S)
            if c == self.mp + "->incr_num":
                return Val("int", self.N)
            if c == self.mp + "->next_obj" and self.head is not None:
                return self.head
            return UNK
        if k == "CallExpr":
            if callee_ref(n) == "cmi_aligned_alloc":
                return Val("ptr", Poly(), 1)
            return UNK
        if k == "ArraySubscriptExpr":
            # p[i] is *(p + i)
            a, b = self.ev(kids(n)[0]), self.ev(kids(n)[1])
            if a.kind == "ptr" and b.kind == "int":
                addr = Val("ptr", a.p + b.p.scale(a.esz), a.esz)
                return self.mem.get(tuple(sorted(addr.p.items())), UNK)
            return UNK
        if k == "UnaryOperator" and n.get("opcode") == "&":
            t = strip(kids(n)[0])
            if t["kind"] == "ArraySubscriptExpr":
                a, b = self.ev(kids(t)[0]), self.ev(kids(t)[1])
                if a.kind == "ptr" and b.kind == "int":
                    return Val("ptr", a.p + b.p.scale(a.esz), a.esz)
                return UNK
            if t["kind"] == "UnaryOperator" and t.get("opcode") == "*":
                return self.ev(kids(t)[0])
            return UNK
        if k == "UnaryOperator":
            op = n.get("opcode")
            if op == "*":
                p = self.ev(kids(n)[0])
                if p.kind == "ptr":
                    key = tuple(sorted(p.p.items()))
                    return self.mem.get(key, UNK)
                return UNK
            if op == "-":
                v = self.ev(kids(n)[0])
                if v.kind == "int":
                    return Val("int", v.p.scale(-1))
            return UNK
        if k == "BinaryOperator":
            op = n["opcode"]
            if op in ("+", "-", "*", "/"):
                a, b = self.ev(kids(n)[0]), self.ev(kids(n)[1])
                if a.kind == "int" and b.kind == "int":
                    if op == "+":
                        return Val("int", a.p + b.p)
                    if op == "-":
                        return Val("int", a.p - b.p)
                    if op == "*":
                        return Val("int", a.p * b.p)
                    if op == "/" and b.p.is_const() and b.p.get((), 0) != 0:
                        d = b.p[()]
                        # exact only when the dividend is a multiple: obj_sz is a multiple of 8 (asserted)
                        # obj_sz is asserted to be a multiple of 8, incr_sz is a whole number of pages
                        if all(("O" in kk or "S" in kk) for kk in a.p) and d in (8, 4, 2, 1):
                            return Val("int", a.p.scale(Fraction(1) / d))
                        if a.p.is_const() and (a.p.get((), 0) / d).denominator == 1:
                            return Val("int", a.p.scale(Fraction(1) / d))
                        raise AnalysisBroken("IDX: inexact division %s" % render(n0))
                    return UNK
                if a.kind == "ptr" and b.kind == "int" and op in ("+", "-"):
                    d = b.p.scale(a.esz)
                    return Val("ptr", a.p + d if op == "+" else a.p - d, a.esz)
                if b.kind == "ptr" and a.kind == "int" and op == "+":
                    return Val("ptr", b.p + a.p.scale(b.esz), b.esz)
                if a.kind == "ptr" and b.kind == "ptr" and op == "-":
                    if a.esz != b.esz:
                        raise AnalysisBroken("IDX: pointer difference of different element sizes")
                    return Val("int", (a.p - b.p).scale(Fraction(1, a.esz)))
                return UNK
        if k == "UnaryExprOrTypeTraitExpr":
            t = n.get("argType") or ""
            if t.endswith("*"):
                return Val("int", Poly.const(8))
            return UNK
        return UNK

    # -- comparisons -> facts -------------------------------------------
    def _cmp(self, n):
        """(D poly in bytes-or-counts, op) for L op R as D op 0, or None."""
        n = strip(n)
        if n["kind"] == "BinaryOperator" and n.get("opcode") in ("<", "<=", ">", ">=", "!=", "=="):
            a, b = self.ev(kids(n)[0]), self.ev(kids(n)[1])
            if a.kind == b.kind and a.kind in ("int", "ptr"):
                return (a.p - b.p, n["opcode"])
        return None

    NEG = {"<": ">=", "<=": ">", ">": "<=", ">=": "<", "==": "!=", "!=": "=="}

    def _facts_from(self, facts, D, op, note):
        """Add the tightest sound count fact implied by `D op 0` (D in counts, or bytes K*O + cs*S)."""
        syms = D.symbols()
        if "O" not in syms and "S" not in syms:
            K = D
            cs = 0
        else:
            K = Poly()
            cs = Fraction(0)
            for k, v in D.items():
                if k == ("S",):
                    cs = v
                elif "O" in k and k.count("O") == 1 and "S" not in k:
                    kk = tuple(s for s in k if s != "O")
                    K[kk] = K.get(kk, 0) + v
                else:
                    raise AnalysisBroken("IDX: comparison mixes bytes and counts: %s %s 0" % (D.show(), op))
            if cs not in (0, 1, -1):
                raise AnalysisBroken("IDX: comparison against %s chunk sizes" % cs)
        one = Poly.const(1)
        if cs == 0:
            # K op 0 (for bytes: K*O op 0 with O > 0)
            if op == "<":
                return facts.add_le0(K + one, note)
            if op == "<=":
                return facts.add_le0(K, note)
            if op == ">":
                return facts.add_le0(one - K, note)
            if op == ">=":
                return facts.add_le0(K.scale(-1), note)
            if op == "==":
                return facts.add_le0(K, note).add_le0(K.scale(-1))
            raise AnalysisBroken("IDX: unsupported guard operator %s" % op)
        if cs == 1:
            # K*O + S op 0  <=>  (-K)*O (flip op) S
            K = K.scale(-1)
            op = {"<": ">", "<=": ">=", ">": "<", ">=": "<=", "==": "==", "!=": "!="}[op]
        # now: K*O op S, with N*O <= S < (N+1)*O
        N = self.N
        if op == "<":        # K*O < S < (N+1)*O      => K <= N      (K <= N-1 only if O divides S)
            return facts.add_le0(K - N, note + " [K*O < S gives only K <= N: O need not divide S]")
        if op == "<=":       # K*O <= S               <=> K <= N
            return facts.add_le0(K - N, note)
        if op == ">=":       # K*O >= S >= N*O        => K >= N
            return facts.add_le0(N - K, note)
        if op == ">":        # K*O > S >= N*O         => K >= N+1
            return facts.add_le0(N + one - K, note)
        raise AnalysisBroken("IDX: unsupported guard operator %s against the chunk size" % op)

    def guard_facts(self, facts, cond, positive, note):
        cond = strip(cond)
        if cond["kind"] == "BinaryOperator" and cond.get("opcode") == "&&" and positive:
            return self.guard_facts(self.guard_facts(facts, kids(cond)[0], True, note), kids(cond)[1], True, note)
        if cond["kind"] == "UnaryOperator" and cond.get("opcode") == "!":
            return self.guard_facts(facts, kids(cond)[0], not positive, note)
        c = self._cmp(cond)
        if c is None:
            raise AnalysisBroken("IDX: loop guard not understood: %s" % render(cond))
        D, op = c
        if not positive:
            op = self.NEG[op]
        return self._facts_from(facts, D, op, note)

    # -- obligations -------------------------------------------------------
    def _object_index(self, p):
        """offset poly -> (K, ok) with offset = K*O exactly."""
        K = Poly()
        for k, v in p.items():
            if "O" in k and k.count("O") == 1 and "S" not in k:
                kk = tuple(s for s in k if s != "O")
                K[kk] = K.get(kk, 0) + v
            else:
                return None
        return K

    def _in_chunk(self, p, facts):
        K = self._object_index(p)
        if K is None:
            return False, "chunk+%s is not a whole number of objects from the chunk start" % p.show()
        lo = facts.proves_le0(K.scale(-1))
        hi = facts.proves_le0(K + Poly.const(1) - self.N)
        if lo and hi:
            return True, "object %s in [0, N-1]" % K.show()
        return False, "object number %s is not provably in [0, incr_num - 1] (known: %s)" % (
            K.show(), "; ".join(facts.notes) or "nothing")

    def store(self, target, val, node, facts):
        where = loc(node)
        ok, why = self._in_chunk(target.p, facts)
        self.obligations.append(("store through chunk+%s" % target.p.show(), ok, where, why))
        if val.kind == "ptr":
            ok2, why2 = self._in_chunk(val.p, facts)
            self.obligations.append(("link to chunk+%s" % val.p.show(), ok2, where, why2))
        elif val.kind == "null":
            self.null_terminated.append(target.p)
        else:
            self.obligations.append(("value stored at chunk+%s" % target.p.show(), False, where,
                                     "the value stored in a free object is neither NULL nor an object of the chunk"))
        self.mem[tuple(sorted(target.p.items()))] = val

    # -- statements ---------------------------------------------------------
    def assign(self, lhs, val, node, facts):
        l = strip(lhs)
        if l["kind"] == "DeclRefExpr":
            nm = l["ref"]["name"]
            if val.kind == "ptr":
                es = _elem_size(l.get("type"))
                val = Val("ptr", val.p, es if es is not None else val.esz)
            self.env[nm] = val
            return
        if l["kind"] == "ArraySubscriptExpr":
            a, b = self.ev(kids(l)[0]), self.ev(kids(l)[1])
            if a.kind == "ptr" and b.kind == "int":
                self.store(Val("ptr", a.p + b.p.scale(a.esz), a.esz), val, node, facts)
                return
            if a.kind == "ptr":
                raise AnalysisBroken("IDX: chunk subscripted with an index outside the fragment at line %s" % node.get("line"))
        if l["kind"] == "UnaryOperator" and l.get("opcode") == "*":
            t = self.ev(kids(l)[0])
            if t.kind == "ptr":
                self.store(t, val, node, facts)
                return
            if val.kind == "ptr":
                raise AnalysisBroken("IDX: chunk pointer stored through an unknown pointer at line %s" % node.get("line"))
            return
        c = self.cx.canon(l)
        if c == self.mp + "->next_obj":
            self.head = val
            return
        if val.kind == "ptr" and "chunk_list" not in c:
            raise AnalysisBroken("IDX: chunk pointer stored to %s" % c)

    def run(self, stmts, facts=None):
        facts = facts or self.facts
        for s in stmts:
            self.stmt(s, facts)

    def stmt(self, s, facts):
        k = s["kind"]
        if k == "CompoundStmt":
            for c in kids(s):
                self.stmt(c, facts)
        elif k == "DeclStmt":
            for d in kids(s):
                if d["kind"] == "VarDecl":
                    ini = [c for c in kids(d) if c["kind"] not in ("FullComment",)]
                    if ini:
                        v = self.ev(ini[0])
                        if v.kind == "ptr":
                            es = _elem_size(d.get("type"))
                            v = Val("ptr", v.p, es if es is not None else v.esz)
                        self.env[d["name"]] = v
                    else:
                        self.env[d["name"]] = UNK
        elif k == "BinaryOperator" and s.get("opcode") == "=":
            self.assign(kids(s)[0], self.ev(kids(s)[1]), s, facts)
        elif k == "CompoundAssignOperator" and s.get("opcode") in ("+=", "-="):
            cur = self.ev(kids(s)[0])
            d = self.ev(kids(s)[1])
            if cur.kind == "ptr" and d.kind == "int":
                dd = d.p.scale(cur.esz)
                nv = Val("ptr", cur.p + dd if s["opcode"] == "+=" else cur.p - dd, cur.esz)
            elif cur.kind == "int" and d.kind == "int":
                nv = Val("int", cur.p + d.p if s["opcode"] == "+=" else cur.p - d.p)
            else:
                nv = UNK
            self.assign(kids(s)[0], nv, s, facts)
        elif k == "UnaryOperator" and s.get("opcode") in ("++", "--"):
            cur = self.ev(kids(s)[0])
            one = Poly.const(1 if s["opcode"] == "++" else -1)
            if cur.kind == "ptr":
                nv = Val("ptr", cur.p + one.scale(cur.esz), cur.esz)
            elif cur.kind == "int":
                nv = Val("int", cur.p + one)
            else:
                nv = UNK
            self.assign(kids(s)[0], nv, s, facts)
        elif k in ("ForStmt", "WhileStmt"):
            self.loop(s, facts)
        elif k == "DoStmt" and not (int_value_safe(kids(s)[1]) == 0):
            self.loop(s, facts)
        elif k in ("DoStmt", "ParenExpr", "ConditionalOperator", "CStyleCastExpr", "CallExpr", "NullStmt"):
            return          # assertions / logging
        elif k == "IfStmt":
            # only conditionals that do not touch chunk pointers are tolerated
            for y in walk(s):
                if y["kind"] == "DeclRefExpr" and self.env.get(y["ref"]["name"], UNK).kind == "ptr":
                    raise AnalysisBroken("IDX: conditional on chunk pointers at line %s" % s.get("line"))
        else:
            raise AnalysisBroken("IDX: unsupported statement %s at line %s" % (k, s.get("line")))

    def _assigned(self, nodes):
        out = []
        for n in nodes:
            if n is None:
                continue
            for y in walk(n):
                tgt = None
                if y["kind"] == "BinaryOperator" and y.get("opcode") == "=" or y["kind"] == "CompoundAssignOperator":
                    tgt = strip(kids(y)[0])
                elif y["kind"] == "UnaryOperator" and y.get("opcode") in ("++", "--"):
                    tgt = strip(kids(y)[0])
                if tgt is not None and tgt["kind"] == "DeclRefExpr" and tgt["ref"]["name"] not in out:
                    out.append(tgt["ref"]["name"])
        return out

    def loop(self, s, facts):
        ch = kids(s)
        is_do = s["kind"] == "DoStmt"
        if s["kind"] == "ForStmt":
            init, cond, inc, body = ch[0], ch[2], ch[3], ch[4]
        elif is_do:
            # do B while (test): the body runs once before the first test.  A step inside the test (--n > 1) is the
            # increment of the round, the comparison reads the stepped value
            init, cond, inc, body = None, ch[1], None, ch[0]
            c0 = strip(cond)
            if c0["kind"] == "BinaryOperator" and c0.get("opcode") in ("<", "<=", ">", ">=", "!="):
                l0 = strip(kids(c0)[0])
                if l0["kind"] == "UnaryOperator" and l0.get("opcode") in ("++", "--") and not l0.get("isPostfix"):
                    inc = l0
                    c1 = dict(c0)
                    c1["inner"] = [kids(l0)[0], kids(c0)[1]]
                    cond = c1
                elif l0["kind"] == "UnaryOperator" and l0.get("opcode") in ("++", "--"):
                    raise AnalysisBroken("IDX: do-while test with a post-step is not modelled")
        else:
            init, cond, inc, body = None, ch[0], None, ch[1]
        if init is not None and init["kind"] != "Null":
            self.stmt(init, facts)
        if cond is None or cond["kind"] == "Null":
            raise AnalysisBroken("IDX: loop without a guard")
        self.nloops += 1
        it = "it%d" % self.nloops
        ITER = Poly.sym(it)
        inc_nodes = [inc] if inc is not None and inc["kind"] != "Null" else []
        ivars = [v for v in self._assigned([body] + inc_nodes) if v in self.env]
        # ---- one symbolic iteration to find the steps
        saved_env, saved_mem, saved_obl, saved_null = dict(self.env), dict(self.mem), list(self.obligations), list(self.null_terminated)
        start = {}
        for v in ivars:
            cur = self.env[v]
            if cur.kind not in ("int", "ptr"):
                raise AnalysisBroken("IDX: loop variable %s has no known start value" % v)
            start[v] = cur
            self.env[v] = Val(cur.kind, Poly.sym("@" + v), cur.esz)
        probe = Facts()
        self.stmt(body, probe)
        for i_ in inc_nodes:
            self.stmt(i_, probe)
        steps = {}
        for v in ivars:
            after = self.env[v]
            if after.kind != start[v].kind:
                raise AnalysisBroken("IDX: loop variable %s is not an induction variable" % v)
            d = after.p - Poly.sym("@" + v)
            if any(sym.startswith("@") for sym in d.symbols()):
                raise AnalysisBroken("IDX: loop variable %s does not advance by a loop-invariant step (%s)" % (v, d.show()))
            steps[v] = d
        self.env, self.mem, self.obligations, self.null_terminated = saved_env, saved_mem, saved_obl, saved_null
        # ---- the general iteration
        def at(itp):
            for v in ivars:
                self.env[v] = Val(start[v].kind, start[v].p + steps[v] * itp, start[v].esz)
        if is_do:
            # the first round runs without any test
            at(Poly())
            f_first = facts
            self.mem = {}
            self.stmt(body, f_first)
        at(ITER)
        f_body = facts.add_le0(ITER.scale(-1), "%s >= 0" % it)
        if is_do:
            f_body = facts.add_le0(Poly.const(1) - ITER, "%s >= 1" % it)
        f_body = self.guard_facts(f_body, cond, True, "guard %s holds at iteration %s" % (render(cond), it))
        nob = len(self.obligations)
        self.mem = {}
        before = {v: self.env[v] for v in ivars}
        self.stmt(body, f_body)
        # the loop pointer must follow the links it wrote
        links = []
        for key, val in self.mem.items():
            if val.kind == "ptr":
                links.append((Poly(dict(key)), val))
        # where a loop variable "is": a pointer is at its own offset; an integer index is at base + index * element size for
        # the (loop-invariant) chunk pointers it can subscript
        bases = [a_ for nm_, a_ in self.env.items() if a_.kind == "ptr" and nm_ not in ivars]

        def positions(val_):
            if val_.kind == "ptr":
                return [val_.p]
            if val_.kind == "int":
                return [b_.p + val_.p.scale(b_.esz) for b_ in bases]
            return []
        self._positions = positions
        for tp, val in links:
            followers = [v for v in ivars if any((q_ - tp) == Poly() for q_ in positions(before[v]))]
            okf = any((q_ - val.p) == Poly() for v in followers for q_ in positions(self.env[v]))
            # (the increment expression may still advance the pointer)
            if not okf and inc_nodes:
                snap = dict(self.env)
                for i_ in inc_nodes:
                    self.stmt(i_, f_body)
                okf = any((q_ - val.p) == Poly() for v in followers for q_ in positions(self.env[v]))
                self.env = snap
            self.obligations.append(("the walk continues at the object it linked (chunk+%s)" % val.p.show(), okf, loc(s),
                                     "the pointer does not advance to the link it stored: objects are skipped or revisited"))
            stepK = self._object_index(val.p - tp)
            okd = stepK is not None and stepK.is_const() and stepK.get((), 0) >= 1
            self.obligations.append(("each link points strictly forward by whole objects", okd, loc(s),
                                     "link distance chunk+%s -> chunk+%s is not a positive whole number of objects"
                                     % (tp.show(), val.p.show())))
        if not links:
            self.obligations.append(("the loop links objects", False, loc(s), "no link is stored in the loop body"))
        self.followers = [v for v in ivars if any((q_ - tp) == Poly() for tp, _ in links for q_ in positions(before[v]))]
        for i_ in inc_nodes:
            self.stmt(i_, f_body)
        self.loops.append({"line": s.get("line"), "guard": render(cond), "induction": {v: steps[v].show() for v in ivars},
                           "obligations_in_body": len(self.obligations) - nob})
        # ---- after the loop: it = 0 with the guard false, or it >= 1 with the guard true at it-1 and false at it
        self.mem = {}
        cases = []
        if is_do:
            # one round, test false afterwards
            at(Poly.const(1))
            fa = self.guard_facts(facts, cond, False, "guard false after the first round")
            if fa.feasible():
                cases.append((Poly.const(1), fa))
        else:
            at(Poly())
            fa = self.guard_facts(facts, cond, False, "guard false at entry")
            if fa.feasible():
                cases.append((Poly(), fa))
        at(ITER - Poly.const(1))
        fb = facts.add_le0((Poly.const(2) if is_do else Poly.const(1)) - ITER, "%s >= %d" % (it, 2 if is_do else 1))
        fb = self.guard_facts(fb, cond, True, "guard %s held at iteration %s-1" % (render(cond), it))
        at(ITER)
        fb = self.guard_facts(fb, cond, False, "guard false at iteration %s" % it)
        if fb.feasible():
            cases.append((ITER, fb))
        self.exit_cases = cases
        self.exit_ivars = (ivars, start, steps)
        return

    def run_after_loop(self, stmts):
        """Statements after the (single) loop are checked once per exit case."""
        ivars, start, steps = self.exit_ivars
        for itp, f in self.exit_cases:
            for v in ivars:
                self.env[v] = Val(start[v].kind, start[v].p + steps[v] * itp, start[v].esz)
            self.mem = {}
            for s in stmts:
                self.stmt(s, f)
            # the list must end in NULL at the last object linked (the loop pointer's final position)
            ends = []
            for v in self.followers:
                got = [self.mem.get(tuple(sorted(q_.items()))) for q_ in self._positions(self.env[v])]
                hit = [e for e in got if e is not None]
                ends.append(hit[0] if hit else None)
            ok = bool(ends) and all(e is not None and e.kind == "null" for e in ends)
            self.obligations.append(("the last linked object is terminated with NULL (exit case %s)" % (itp.show()), ok,
                                     loc(stmts[0]) if stmts else None,
                                     "after the loop NULL is not stored into the first word of the last object linked"))
