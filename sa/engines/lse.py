"""LSE - linear state executor: path-by-path symbolic execution of straight-line code with conditionals over integer
state (struct fields and locals as linear forms over the entry values), with facts from branch conditions and an
entry invariant, decided by Fourier-Motzkin elimination (engine IDX's prover).

Use: "the index written is below the (possibly just grown) capacity on every path", "the counter stays below the
size".  The state variables are chosen by the rule (canonical lvalue strings -> symbol).  Loops and unknown calls
that write tracked state make the analysis broken; calls are otherwise ignored (realloc etc. do not change integers).
"""
import re

from ..astutil import kids, strip, walk, callee_ref, render, loc
from ..frontend import AnalysisBroken
from .induct import Poly, Facts


class Path:
    def __init__(self, state, env, facts):
        self.state, self.env, self.facts = dict(state), dict(env), facts
        self.events = []        # (kind, payload, node, facts snapshot, state snapshot)
        self.done = False
        self.ret = None


class LSE:
    def __init__(self, cx, tracked, entry_facts, params=None):
        """tracked: canonical lvalue string -> symbol name; entry_facts: Facts over those symbols;
        params: parameter name -> symbol name (integer parameters read as symbols)."""
        self.cx = cx
        self.tracked = tracked
        self.entry = entry_facts
        self.params = params or {}
        self.on_store = None      # callback(path, lvalue canon, index Poly or None, node)

    def run(self, stmts):
        p0 = Path({t: Poly.sym(s) for t, s in self.tracked.items()}, {}, self.entry)
        paths = [p0]
        for s in stmts:
            nxt = []
            for p in paths:
                if p.done:
                    nxt.append(p)
                else:
                    nxt.extend(self.stmt(s, p))
            paths = nxt
            if len(paths) > 64:
                raise AnalysisBroken("LSE: too many paths")
        return paths

    # -- expressions ----------------------------------------------------------
    def lv(self, n):
        n = strip(n, casts=True)
        if n["kind"] == "DeclRefExpr":
            return ("local", n["ref"]["id"])
        return ("mem", self.cx.canon(n))

    def ev(self, n, p):
        """Poly or None (unknown); applies side effects (++/--/=) to the path state."""
        n = strip(n, casts=True)
        k = n["kind"]
        ch = kids(n)
        if k == "IntegerLiteral":
            return Poly.const(int(n["value"]))
        if k == "DeclRefExpr":
            if n["ref"]["id"] in p.env:
                return p.env[n["ref"]["id"]]
            if n["ref"].get("kind") == "ParmVarDecl" and n["ref"].get("name") in self.params:
                return Poly.sym(self.params[n["ref"]["name"]])
            if n["ref"].get("kind") == "EnumConstantDecl":
                return None
            d = self.cx.single_def(n["ref"]["id"])
            if d is not None and not any(x["kind"] == "CallExpr" for x in walk(d)):
                return None
            return None
        if k in ("MemberExpr", "ArraySubscriptExpr"):
            c = self.cx.canon(n)
            if c in p.state:
                return p.state[c]
            return None
        if k == "UnaryOperator" and n.get("opcode") in ("++", "--"):
            kind, key = self.lv(ch[0])
            cur = p.env.get(key) if kind == "local" else p.state.get(key)
            if cur is None:
                return None
            new = cur + Poly.const(1 if n["opcode"] == "++" else -1)
            if kind == "local":
                p.env[key] = new
            else:
                p.state[key] = new
            return cur if n.get("isPostfix") else new
        if k in ("BinaryOperator", "CompoundAssignOperator"):
            op = n["opcode"]
            if op == "=" or k == "CompoundAssignOperator":
                r = self.ev(ch[1], p)
                kind, key = self.lv(ch[0])
                l0 = strip(ch[0], casts=True)
                if l0["kind"] == "ArraySubscriptExpr" and self.on_store:
                    idx = self.ev(kids(l0)[1], p)
                    self.on_store(p, self.cx.canon(kids(l0)[0]), idx, n)
                if k == "CompoundAssignOperator":
                    cur = p.env.get(key) if kind == "local" else p.state.get(key)
                    if cur is None or r is None:
                        r = None
                    elif op == "+=":
                        r = cur + r
                    elif op == "-=":
                        r = cur - r
                    elif op == "*=" and r.is_const():
                        r = cur.scale(r.get((), 0))
                    else:
                        r = None
                if kind == "local":
                    p.env[key] = r
                elif key in p.state or key in self.tracked:
                    if r is None:
                        raise AnalysisBroken("LSE: tracked state %s assigned an unknown value at line %s" % (key, n.get("line")))
                    p.state[key] = r
                return r
            a, b = self.ev(ch[0], p), self.ev(ch[1], p)
            if a is None or b is None:
                return None
            if op == "+":
                return a + b
            if op == "-":
                return a - b
            if op == "*":
                if a.is_const():
                    return b.scale(a.get((), 0))
                if b.is_const():
                    return a.scale(b.get((), 0))
                return None
            if op == "<<" and b.is_const():
                return a.scale(1 << int(b.get((), 0)))
            return None
        if k == "CallExpr":
            for a in ch[1:]:
                self.ev(a, p)
            return None
        if k == "ConditionalOperator":
            return None
        return None

    def cond(self, n, p, positive):
        """list of Facts (alternatives) refining p.facts under cond == positive; None if the condition is not linear"""
        n = strip(n, casts=True)
        if n["kind"] == "UnaryOperator" and n.get("opcode") == "!":
            return self.cond(kids(n)[0], p, not positive)
        if n["kind"] == "BinaryOperator" and n.get("opcode") in ("==", "!=", "<", "<=", ">", ">="):
            a, b = self.ev(kids(n)[0], p), self.ev(kids(n)[1], p)
            if a is None or b is None:
                return None
            op = n["opcode"]
            if not positive:
                op = {"==": "!=", "!=": "==", "<": ">=", "<=": ">", ">": "<=", ">=": "<"}[op]
            d = a - b
            one = Poly.const(1)
            note = ("" if positive else "not ") + render(n)
            f = p.facts
            if op == "==":
                return [f.add_le0(d, note).add_le0(d.scale(-1))]
            if op == "!=":
                return [f.add_le0(d + one, note + " (below)"), f.add_le0(one - d, note + " (above)")]
            if op == "<":
                return [f.add_le0(d + one, note)]
            if op == "<=":
                return [f.add_le0(d, note)]
            if op == ">":
                return [f.add_le0(one - d, note)]
            if op == ">=":
                return [f.add_le0(d.scale(-1), note)]
        return None

    # -- statements ------------------------------------------------------------
    def _find_ternary(self, s):
        """the first ConditionalOperator evaluated in an expression statement / declaration / return (no nesting)"""
        for y in walk(s):
            if y["kind"] == "ConditionalOperator":
                return y
        return None

    def stmt(self, s, p):
        k = s["kind"]
        from ..vals import is_assert_stmt, any_assert_condition
        if is_assert_stmt(s):
            # an assertion: execution continues only where it holds (the other arm aborts) - one path, the condition a fact
            c = any_assert_condition(s)
            if c is None:
                return [p]
            q = Path(p.state, p.env, p.facts)
            q.events = list(p.events)
            alts = self.cond(c, q, True)
            if alts is None:
                return [p]
            out = []
            for f in alts:
                if f.feasible():
                    r = Path(q.state, q.env, f)
                    r.events = list(q.events)
                    out.append(r)
            return out or [p]
        if k in ("DeclStmt", "BinaryOperator", "ReturnStmt", "CStyleCastExpr", "ParenExpr"):
            t = self._find_ternary(s)
            if t is not None and not any(x["kind"] == "CallExpr" and any(z is t for z in walk(x)) for x in walk(s)):
                out = []
                import copy as _copy
                for positive, pick in ((True, 1), (False, 2)):
                    q = Path(p.state, p.env, p.facts)
                    q.events = list(p.events)
                    alts = self.cond(kids(t)[0], q, positive) or [q.facts]
                    for f in alts:
                        if not f.feasible():
                            continue
                        r = Path(q.state, q.env, f)
                        r.events = list(q.events)
                        s2 = _copy.deepcopy(s)
                        for x in walk(s2):
                            ch = x.get("inner") or []
                            for i, c in enumerate(ch):
                                if c["kind"] == "ConditionalOperator" and render(c) == render(t):
                                    ch[i] = kids(c)[pick]
                        if s2["kind"] == "ConditionalOperator":
                            s2 = kids(s2)[pick]
                        out.extend(self.stmt(s2, r))
                return out
        if k == "CompoundStmt":
            paths = [p]
            for c in kids(s):
                nxt = []
                for q in paths:
                    nxt.extend([q] if q.done else self.stmt(c, q))
                paths = nxt
            return paths
        if k == "DeclStmt":
            for d in kids(s):
                if d["kind"] == "VarDecl":
                    p.env[d["id"]] = self.ev(kids(d)[0], p) if kids(d) else None
            return [p]
        if k == "IfStmt":
            ch = kids(s)
            out = []
            # evaluate the condition once per branch on copies (side effects such as ++x happen in both)
            for positive, branch in ((True, ch[1]), (False, ch[2] if len(ch) > 2 else None)):
                q = Path(p.state, p.env, p.facts)
                q.events = list(p.events)
                alts = self.cond(ch[0], q, positive)
                if alts is None:
                    alts = [q.facts]
                    self.ev(ch[0], q)
                for f in alts:
                    if not f.feasible():
                        continue
                    r = Path(q.state, q.env, f)
                    r.events = list(q.events)
                    out.extend(self.stmt(branch, r) if branch is not None else [r])
            return out
        if k == "ReturnStmt":
            if kids(s):
                p.ret = self.ev(kids(s)[0], p)
            p.done = True
            return [p]
        if k in ("ForStmt", "WhileStmt"):
            # loops that do not touch tracked state or locals derived from it are skipped
            for y in walk(s):
                if y["kind"] in ("MemberExpr",) and self.cx.canon(y) in p.state and any(
                        z is y for st_ in walk(s) if st_["kind"] in ("BinaryOperator", "CompoundAssignOperator", "UnaryOperator")
                        and st_.get("opcode") in ("=", "+=", "-=", "++", "--") for z in walk(kids(st_)[0])):
                    raise AnalysisBroken("LSE: loop writes tracked state at line %s" % s.get("line"))
            return [p]
        if k in ("DoStmt", "NullStmt", "BreakStmt", "ContinueStmt"):
            return [p]
        self.ev(s, p)
        return [p]
