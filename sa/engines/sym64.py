"""SYM - symbolic evaluation of straight-line 64-bit integer code into a normal form.

Values are linear forms  c0 + sum ci * atom_i  (coefficients modulo 2^64) over atoms; an atom is an input symbol
or a non-linear term ('^', '|', '&' with sorted operands, '>>' by a constant, 'rotl', '*' of two non-constant
forms).  x << k is multiplication by 2^k, so c + (c << 3) and 9 * c have the same normal form; (x << k) | (x >> (64-k))
is recognised as a rotation; '+', '^', '|', '*' are commutative.  Two pieces of code compute the same function of
their inputs if their normal forms are equal (the converse is not claimed: an unrecognised but equivalent
rewriting makes the analysis report 'cannot decide', never a violation).
"""
from ..astutil import kids, strip, render
from ..frontend import AnalysisBroken

M = 1 << 64


class Undecided(Exception):
    pass


def const(c):
    return (("", c % M),) if c % M else ()


def atom(a):
    return ((a, 1),)


def _norm(items):
    d = {}
    for a, c in items:
        d[a] = (d.get(a, 0) + c) % M
    return tuple(sorted(((a, c) for a, c in d.items() if c), key=lambda t: repr(t[0])))


def add(x, y):
    return _norm(list(x) + list(y))


def scale(x, k):
    return _norm([(a, c * k) for a, c in x])


def neg(x):
    return scale(x, M - 1)


def is_const(x):
    return all(a == "" for a, c in x)


def cval(x):
    return sum(c for a, c in x if a == "") % M


def mul(x, y):
    if is_const(x):
        return scale(y, cval(x))
    if is_const(y):
        return scale(x, cval(y))
    ops = sorted([x, y], key=repr)
    return atom(("*", ops[0], ops[1]))


def shl(x, k):
    return scale(x, 1 << k)


def shr(x, k):
    if k == 0:
        return x
    if is_const(x):
        return const(cval(x) >> k)
    return atom((">>", x, k))


def bitop(op, x, y):
    if op == "^" and x == y:
        return ()
    if is_const(x) and is_const(y):
        a, b = cval(x), cval(y)
        return const({"^": a ^ b, "|": a | b, "&": a & b}[op])
    if op == "|":
        # rotation: (v << k) | (v >> (64 - k))
        for p, q in ((x, y), (y, x)):
            if len(q) == 1 and q[0][1] == 1 and isinstance(q[0][0], tuple) and q[0][0][0] == ">>":
                v, k2 = q[0][0][1], q[0][0][2]
                if p == shl(v, 64 - k2):
                    return atom(("rotl", v, 64 - k2))
    ops = sorted([x, y], key=repr)
    return atom((op, ops[0], ops[1]))


def show(x, depth=0):
    if not x:
        return "0"
    parts = []
    for a, c in x:
        if a == "":
            parts.append(hex(c))
            continue
        if isinstance(a, tuple):
            if a[0] in (">>",):
                t = "(%s >> %d)" % (show(a[1]), a[2])
            elif a[0] == "rotl":
                t = "rotl(%s, %d)" % (show(a[1]), a[2])
            else:
                t = "(%s %s %s)" % (show(a[1]), a[0], show(a[2]))
        else:
            t = str(a)
        parts.append(t if c == 1 else "%s*%s" % (hex(c), t))
    return " + ".join(parts)


class Sym:
    """Evaluate a function body: `lvalue_name(node)` maps an lvalue expression to a state name or None."""

    def __init__(self, func, state_name):
        self.f = func
        self.state_name = state_name
        self.env = {}
        self.ret = None

    def get(self, name):
        if name not in self.env:
            self.env[name] = atom(name)
        return self.env[name]

    def run(self):
        self.stmt(self.f.body)
        return self

    def stmt(self, n):
        k = n["kind"]
        if k == "CompoundStmt":
            for c in kids(n):
                self.stmt(c)
        elif k == "DeclStmt":
            for d in kids(n):
                if d["kind"] == "VarDecl" and kids(d):
                    self.env["local:" + d["id"]] = self.ev(kids(d)[0])
        elif k == "ReturnStmt":
            self.ret = self.ev(kids(n)[0]) if kids(n) else None
        elif k in ("NullStmt", "DoStmt"):
            pass
        elif k in ("IfStmt", "ForStmt", "WhileStmt", "SwitchStmt"):
            raise Undecided("%s contains control flow (%s)" % (self.f.name, k))
        else:
            self.ev(n)

    def lv(self, n):
        n = strip(n, casts=True)
        if n["kind"] == "DeclRefExpr" and "local:" + n["ref"]["id"] in self.env:
            return "local:" + n["ref"]["id"]
        if n["kind"] == "DeclRefExpr" and n["ref"].get("kind") == "VarDecl" and self.state_name(n) is None:
            return "local:" + n["ref"]["id"]
        nm = self.state_name(n)
        if nm is None:
            raise Undecided("store to %s" % render(n))
        return nm

    def ev(self, n):
        n = strip(n, casts=True)
        k = n["kind"]
        ch = kids(n)
        if k == "IntegerLiteral":
            return const(int(n["value"]))
        if k == "DeclRefExpr":
            key = "local:" + n["ref"]["id"]
            if key in self.env:
                return self.env[key]
            nm = self.state_name(n)
            if nm is not None:
                return self.get(nm)
            if n["ref"].get("kind") == "ParmVarDecl":
                return self.get("param:" + n["ref"]["name"])
            raise Undecided("reads %s" % render(n))
        if k == "MemberExpr":
            nm = self.state_name(n)
            if nm is None:
                raise Undecided("reads %s" % render(n))
            return self.get(nm)
        if k == "UnaryOperator":
            op = n.get("opcode")
            if op in ("++", "--"):
                nm = self.lv(ch[0])
                old = self.get(nm) if not nm.startswith("local:") else self.env[nm]
                new = add(old, const(1 if op == "++" else M - 1))
                self.env[nm] = new
                return old if n.get("isPostfix") else new
            if op == "-":
                return neg(self.ev(ch[0]))
            if op == "~":
                return add(neg(self.ev(ch[0])), const(M - 1))
            raise Undecided("operator %s" % op)
        if k in ("BinaryOperator", "CompoundAssignOperator"):
            op = n["opcode"]
            if op == "=":
                v = self.ev(ch[1])
                self.env[self.lv(ch[0])] = v
                return v
            if k == "CompoundAssignOperator":
                nm = self.lv(ch[0])
                cur = self.env[nm] if nm in self.env else self.get(nm)
                v = self.binop(op[:-1], cur, self.ev(ch[1]))
                self.env[nm] = v
                return v
            if op == ",":
                self.ev(ch[0])
                return self.ev(ch[1])
            return self.binop(op, self.ev(ch[0]), self.ev(ch[1]))
        if k == "CStyleCastExpr":
            return self.ev(ch[-1])
        raise Undecided("expression %s" % render(n)[:60])

    def binop(self, op, a, b):
        if op == "+":
            return add(a, b)
        if op == "-":
            return add(a, neg(b))
        if op == "*":
            return mul(a, b)
        if op in ("<<", ">>"):
            if not is_const(b):
                raise Undecided("shift by a variable")
            kk = cval(b)
            if kk >= 64:
                raise Undecided("shift by %d" % kk)
            return shl(a, kk) if op == "<<" else shr(a, kk)
        if op in ("^", "|", "&"):
            return bitop(op, a, b)
        raise Undecided("operator %s" % op)
