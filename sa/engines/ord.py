"""ORD - finite order abstraction for comparators.

A heap comparator touches the fields of its two arguments only through
comparisons.  For two entries there are 3^k combinations of per-field
orderings (k = number of fields read), for three entries 13^k combinations of
weak orders.  Evaluating the comparator's AST over this abstraction decides
"is a strict (total) order / is the stated lexicographic order" for all
non-NaN field values.  Anything the evaluator does not understand makes the
analysis broken (exit 2), never a pass.
"""
import itertools

from ..astutil import kids, strip, int_value, render, walk
from ..frontend import AnalysisBroken

FLIP = {"<": ">", ">": "<", "=": "="}


class Unordered(Exception):
    """The comparator decides by arithmetic on the keys (difference, cast), which is not a function of the
    per-field orderings for all values: a difference of two int64 keys can overflow or be truncated."""


class _Return(Exception):
    def __init__(self, v):
        self.v = v


def _is_assert_stmt(n):
    """NDEBUG assert `do { (void)sizeof(x); } while (0)` or a call/conditional to cmi_assert_failed."""
    k = n["kind"]
    if k == "DoStmt":
        return True
    if k in ("ParenExpr", "ConditionalOperator", "CStyleCastExpr", "CallExpr", "NullStmt"):
        return True
    return False


class Comparator:
    def __init__(self, func):
        self.func = func
        if len(func.params) != 2:
            raise AnalysisBroken("comparator %s does not take two arguments" % func.key)
        self.pa = func.params[0]["id"]
        self.pb = func.params[1]["id"]
        self.fields = []
        self._scan_fields(func.body)

    def _scan_fields(self, body):
        from ..astutil import walk
        for n in walk(body):
            if n["kind"] == "MemberExpr":
                b = strip(kids(n)[0], casts=True)
                if b["kind"] == "DeclRefExpr" and b["ref"]["id"] in (self.pa, self.pb):
                    if n["name"] not in self.fields:
                        self.fields.append(n["name"])

    # -- evaluation ---------------------------------------------------
    def eval(self, env):
        """env: field -> '<' | '=' | '>' (relation of first argument's field to second's)."""
        self.env = env
        self.locals = {}
        self.side_locals = {}
        try:
            self._stmt(self.func.body)
        except _Return as r:
            return bool(r.v)
        raise AnalysisBroken("comparator %s can fall off its end" % self.func.key)

    def _stmt(self, n):
        k = n["kind"]
        if k == "CompoundStmt":
            for c in kids(n):
                self._stmt(c)
        elif k == "IfStmt":
            ch = kids(n)
            c = self._expr(ch[0])
            if c:
                self._stmt(ch[1])
            elif len(ch) > 2:
                self._stmt(ch[2])
        elif k == "ReturnStmt":
            raise _Return(self._expr(kids(n)[0]))
        elif k == "DeclStmt":
            for d in kids(n):
                if d["kind"] == "VarDecl":
                    ini = [c for c in kids(d) if c["kind"] not in ("FullComment",)]
                    if ini:
                        i0 = strip(ini[0], casts=True)
                        if i0["kind"] == "BinaryOperator" and i0.get("opcode") in ("-", "+", "*") and \
                                (i0.get("opcode") == "*" or self._is_field(kids(i0)[0]) or self._is_field(kids(i0)[1]) or
                                 any(y["kind"] == "BinaryOperator" and y.get("opcode") in ("-", "+", "*") and
                                     (self._is_field(kids(y)[0]) or self._is_field(kids(y)[1])) for y in walk(i0))):
                            if not hasattr(self, "arith_locals"):
                                self.arith_locals = {}
                            self.arith_locals[d["id"]] = ("%s decides by '%s %s = %s': the difference of two 64-bit keys "
                                                          "can overflow and is truncated when stored in a narrower type, so "
                                                          "widely separated keys compare wrongly"
                                                          % (self.func.name, d.get("type"), d.get("name"), render(i0)))
                            continue
                    if ini and any(y["kind"] in ("ImplicitCastExpr", "CStyleCastExpr") and y.get("castKind") == "IntegralToFloating"
                                   for y in walk(ini[0])) and self._is_field(ini[0]):
                        # a 64-bit integer key squeezed through a floating type: keys further apart than 2^53 collapse
                        if not hasattr(self, "arith_locals"):
                            self.arith_locals = {}
                        self.arith_locals[d["id"]] = ("%s compares the 64-bit integer key %s after converting it to %s: values "
                                                      "beyond 2^53 round to the same number, so distinct keys compare equal"
                                                      % (self.func.name, render(ini[0]), d.get("type")))
                        continue
                    if ini:
                        i1 = strip(ini[0], casts=True)
                        if i1["kind"] == "MemberExpr":
                            b1 = strip(kids(i1)[0], casts=True)
                            if b1["kind"] == "DeclRefExpr" and b1["ref"]["id"] in (self.pa, self.pb):
                                # a copy of one argument's field: stands for that field
                                self.side_locals[d["id"]] = ("a" if b1["ref"]["id"] == self.pa else "b", i1["name"])
                                continue
                    self.locals[d["id"]] = self._expr(ini[0]) if ini else None
        elif k == "BinaryOperator" and n.get("opcode") == "=":
            l = strip(kids(n)[0])
            if l["kind"] == "DeclRefExpr" and l["ref"]["id"] in self.locals:
                self.locals[l["ref"]["id"]] = self._expr(kids(n)[1])
            else:
                raise AnalysisBroken("comparator %s: assignment to non-local %s"
                                     % (self.func.key, render(l)))
        elif _is_assert_stmt(n):
            return
        else:
            raise AnalysisBroken("comparator %s: unsupported statement %s at line %s"
                                 % (self.func.key, k, n.get("line")))

    def _side(self, n):
        """('a'|'b', field) for x->field, or ('const', v)."""
        if any(y["kind"] in ("ImplicitCastExpr", "CStyleCastExpr") and y.get("castKind") == "IntegralToFloating" for y in walk(n)) \
                and self._is_field(n):
            raise Unordered("%s compares the 64-bit integer key %s as a floating-point value: values beyond 2^53 round to the same "
                            "number, so distinct keys compare equal" % (self.func.name, render(n)))
        n = strip(n, casts=True)
        if n["kind"] == "MemberExpr":
            b = strip(kids(n)[0], casts=True)
            if b["kind"] == "DeclRefExpr":
                if b["ref"]["id"] == self.pa:
                    return ("a", n["name"])
                if b["ref"]["id"] == self.pb:
                    return ("b", n["name"])
        if n["kind"] == "BinaryOperator" and n.get("opcode") in ("-", "+", "*", "/", "%"):
            raise Unordered("%s compares the arithmetic expression %s; for 64-bit keys this can overflow or be truncated"
                            % (self.func.name, render(n)))
        if n["kind"] == "DeclRefExpr" and n["ref"]["id"] in getattr(self, "arith_locals", {}):
            raise Unordered(self.arith_locals[n["ref"]["id"]])
        if n["kind"] == "DeclRefExpr" and n["ref"]["id"] in self.side_locals:
            return self.side_locals[n["ref"]["id"]]
        raise AnalysisBroken("comparator %s: unsupported operand %s" % (self.func.key, render(n)))

    def _is_field(self, n):
        n = strip(n, casts=True)
        if n["kind"] == "MemberExpr":
            b = strip(kids(n)[0], casts=True)
            return b["kind"] == "DeclRefExpr" and b["ref"]["id"] in (self.pa, self.pb)
        return n["kind"] == "DeclRefExpr" and n["ref"]["id"] in self.side_locals

    def _num(self, n):
        """integer value of an expression built from comparison outcomes (0 / 1), literals, locals holding such values and
        + / - of them (the sign idiom (x > y) - (x < y)); arithmetic on the keys themselves stays Unordered"""
        n = strip(n, casts=True)
        k = n["kind"]
        if k == "IntegerLiteral":
            return int(n["value"])
        if k == "UnaryOperator" and n.get("opcode") == "-":
            return -self._num(kids(n)[0])
        if k == "BinaryOperator" and n.get("opcode") in ("+", "-"):
            if self._is_field(kids(n)[0]) or self._is_field(kids(n)[1]):
                raise Unordered("%s decides by the arithmetic expression %s; for 64-bit keys this can overflow or be "
                                "truncated, so the result is not determined by the ordering of the keys" % (self.func.name, render(n)))
            a_, b_ = self._num(kids(n)[0]), self._num(kids(n)[1])
            return a_ + b_ if n["opcode"] == "+" else a_ - b_
        if k == "ConditionalOperator":
            c, t, e = kids(n)[:3]
            return self._num(t) if self._expr(c) else self._num(e)
        if k == "DeclRefExpr" and n["ref"]["id"] in self.locals:
            v = self.locals[n["ref"]["id"]]
            if v is None:
                raise AnalysisBroken("comparator %s reads an uninitialised local" % self.func.key)
            return int(v)
        v = self._expr(n)
        return int(v)

    def _expr(self, n):
        n = strip(n, casts=True)
        k = n["kind"]
        if k == "BinaryOperator" and n.get("opcode") in ("+", "-") and not (self._is_field(kids(n)[0]) or self._is_field(kids(n)[1])):
            try:
                return self._num(n)
            except AnalysisBroken:
                pass
        if k == "IntegerLiteral":
            return int(n["value"])
        if k == "CXXBoolLiteralExpr":
            return bool(n.get("value"))
        if k == "DeclRefExpr":
            if n["ref"]["id"] in self.locals:
                v = self.locals[n["ref"]["id"]]
                if v is None:
                    raise AnalysisBroken("comparator %s reads an uninitialised local" % self.func.key)
                return v
            if n["ref"]["id"] in getattr(self, "arith_locals", {}):
                raise Unordered(self.arith_locals[n["ref"]["id"]])
            raise AnalysisBroken("comparator %s: unsupported reference %s" % (self.func.key, render(n)))
        if k == "UnaryOperator" and n.get("opcode") == "!":
            return not self._expr(kids(n)[0])
        if k == "ConditionalOperator":
            c, t, e = kids(n)[:3]
            return self._expr(t) if self._expr(c) else self._expr(e)
        if k == "BinaryOperator":
            op = n["opcode"]
            if op == "&&":
                return self._expr(kids(n)[0]) and self._expr(kids(n)[1])
            if op == "||":
                return self._expr(kids(n)[0]) or self._expr(kids(n)[1])
            if op in ("<", ">", "<=", ">=", "==", "!=") and not (self._is_field(kids(n)[0]) or self._is_field(kids(n)[1])):
                # a comparison of computed values (the outcome of earlier comparisons, literals): plain integers
                a_, b_ = self._num(kids(n)[0]), self._num(kids(n)[1])
                return {"<": a_ < b_, ">": a_ > b_, "<=": a_ <= b_, ">=": a_ >= b_, "==": a_ == b_, "!=": a_ != b_}[op]
            if op in ("<", ">", "<=", ">=", "==", "!="):
                ls, rs = self._side(kids(n)[0]), self._side(kids(n)[1])
                if ls[1] != rs[1]:
                    raise AnalysisBroken("comparator %s compares different fields %s"
                                         % (self.func.key, render(n)))
                if ls[0] == rs[0]:
                    rel = "="
                else:
                    rel = self.env[ls[1]]
                    if ls[0] == "b":
                        rel = FLIP[rel]
                return {"<": rel == "<", ">": rel == ">", "<=": rel in "<=", ">=": rel in ">=",
                        "==": rel == "=", "!=": rel != "="}[op]
        if k == "BinaryOperator" and n.get("opcode") in ("-", "+", "*", "/", "%", ">>", "<<"):
            raise Unordered("%s decides by the arithmetic expression %s; for 64-bit keys this can overflow or be "
                            "truncated, so the result is not determined by the ordering of the keys" % (self.func.name, render(n)))
        raise AnalysisBroken("comparator %s: unsupported expression %s" % (self.func.key, render(n)))


def lex_spec(spec, env):
    """spec: [(field, 'asc'|'desc')]; true iff first argument goes strictly before second."""
    for f, d in spec:
        r = env[f]
        if r == "=":
            continue
        return (r == "<") if d == "asc" else (r == ">")
    return False


def _weak_orders3():
    seen = {}
    for ranks in itertools.product(range(3), repeat=3):
        def rel(i, j):
            return "<" if ranks[i] < ranks[j] else (">" if ranks[i] > ranks[j] else "=")
        sig = (rel(0, 1), rel(1, 2), rel(0, 2))
        seen[sig] = ranks
    return list(seen.keys())


WEAK3 = _weak_orders3()    # 13 weak orders of three elements as (ab, bc, ac)


def check(func, spec=None, total_on=None, all_fields=None):
    """Return (obligations, failures) where failures = [(kind, case description)].

    spec      lexicographic specification or None (only the order axioms are checked)
    total_on  field on which distinct entries always differ (the key): cmp must then be total
    """
    cmpf = Comparator(func)
    fields = list(cmpf.fields)
    for f, _ in (spec or []):
        if f not in fields:
            fields.append(f)
    if total_on and total_on not in fields:
        fields.append(total_on)
    if all_fields:
        for f in all_fields:
            if f not in fields:
                fields.append(f)
    obligations = 0
    failures = []
    samples = []

    def ev(env):
        return cmpf.eval(env)

    for rels in itertools.product("<=>", repeat=len(fields)):
        env = dict(zip(fields, rels))
        flip = {f: FLIP[r] for f, r in env.items()}
        ab, ba = ev(env), ev(flip)
        desc = ",".join("%s%s" % (f, env[f]) for f in fields)
        if all(r == "=" for r in rels):
            obligations += 1
            if ab:
                failures.append(("irreflexive", desc))
            continue
        obligations += 1
        if ab and ba:
            failures.append(("asymmetric", desc + " : cmp(a,b) and cmp(b,a) both true"))
        if total_on and env[total_on] != "=":
            obligations += 1
            if not ab and not ba:
                failures.append(("total", desc + " : neither goes first"))
        if spec is not None:
            obligations += 1
            want = lex_spec(spec, env)
            if ab != want:
                failures.append(("specification", desc + " : returns %s, stated order says %s" % (ab, want)))
        if len(samples) < 3:
            samples.append({"case": desc, "cmp(a,b)": ab, "cmp(b,a)": ba})
    # transitivity over triples
    for combo in itertools.product(WEAK3, repeat=len(fields)):
        eab = {f: c[0] for f, c in zip(fields, combo)}
        ebc = {f: c[1] for f, c in zip(fields, combo)}
        eac = {f: c[2] for f, c in zip(fields, combo)}
        fl = lambda e: {f: FLIP[r] for f, r in e.items()}
        ab, bc, ac = ev(eab), ev(ebc), ev(eac)
        obligations += 1
        if ab and bc and not ac:
            failures.append(("transitive", "ab:%s bc:%s ac:%s" % (eab, ebc, eac)))
            continue
        ba, cb, ca = ev(fl(eab)), ev(fl(ebc)), ev(fl(eac))
        if (not ab and not ba) and (not bc and not cb) and (ac or ca):
            failures.append(("incomparability-transitive", "ab:%s bc:%s ac:%s" % (eab, ebc, eac)))
    return {"fields": fields, "obligations": obligations, "failures": failures, "samples": samples}


def truth_table(func_eval, nvars):
    return [func_eval(bits) for bits in itertools.product((False, True), repeat=nvars)]
