"""FLOW - structured abstract interpreter over the AST (engine behind REGION).

The library is structured C (no goto/switch/setjmp), so the flow graph is
walked directly on the AST: if / while / for / do / break / continue / return /
?: / && / ||, with cmi_assert_failed (noreturn) ending a path.  The state is a
*set of configurations* (bounded disjunction).  A configuration has

  env   local variable -> canonical value string (flow-sensitive; a store to
        a memory location L snapshots every value string mentioning L)
  d     the rule domain's own facts (hashable values only)

Static helpers and header inlines chosen by the domain are executed inline in
the caller's configuration (bounded depth, recursion cut), because their
obligations are discharged by the caller.  Everything else is an opaque call
handed to the domain.  Unsupported constructs raise AnalysisBroken.
"""
import re

from ..astutil import kids, strip, walk, callee_ref, render, is_null_expr, int_value, loc
from ..frontend import AnalysisBroken
from ..vals import trivial_return, _may_expand

MAX_STATES = 400
MAX_LOOP_ITERS = 60


class State:
    __slots__ = ("env", "d", "_k")

    def __init__(self, env=None, d=None):
        self.env = env if env is not None else {}
        self.d = d if d is not None else {}
        self._k = None

    def copy(self):
        return State(dict(self.env), dict(self.d))

    def key(self):
        if self._k is None:
            self._k = (frozenset(self.env.items()), frozenset(self.d.items()))
        return self._k

    def set(self, k, v):
        self._k = None
        self.d[k] = v

    def get(self, k, default=None):
        return self.d.get(k, default)


def dedupe(states):
    out, seen = [], set()
    for s in states:
        k = s.key()
        if k not in seen:
            seen.add(k)
            out.append(s)
    if len(out) > MAX_STATES:
        raise AnalysisBroken("state explosion (%d configurations)" % len(out))
    return out


class Domain:
    """Rule domains override these hooks.  Each hook returns a list of successor states."""

    def inline(self, flow, callee, call):
        """Should this direct call be executed inline?"""
        return callee is not None and (callee.static or callee.in_header)

    def store(self, flow, s, lcanon, lhs, value, rhs, op, node):
        return [s]

    def call(self, flow, s, call, name, args):
        """Opaque call.  Return [] to end the path (does not return)."""
        return [s]

    def assume(self, flow, s, cond, truth):
        """Atom of a branch condition.  Return [] when infeasible."""
        return [s]

    def at_return(self, flow, s, node, value):
        pass

    def rename(self, flow, s, old, new):
        """Value string `old` is about to denote something else; facts about it now belong to `new`."""
        pat = re.compile(r"(?<![\w>.\]])" + re.escape(old) + r"(?![\w\[@])")
        moved = {}
        for k in list(s.d):
            if isinstance(k, tuple) and any(isinstance(x, str) and pat.search(x) for x in k):
                nk = tuple(pat.sub(new.replace("\\", "\\\\"), x) if isinstance(x, str) else x for x in k)
                moved[nk] = s.d[k]
        # the old location keeps its facts only if the domain re-establishes them in store()
        for nk, v in moved.items():
            s.d[nk] = v
        if moved:
            s._k = None

    def local_decl(self, flow, s, decl):
        pass

    def loop_mode(self, flow, body):
        return "fix"

    def local_assign(self, flow, s, rid, name, rhs, op, node):
        pass

    def at_loop_head(self, flow, s, hv, tag, names):
        pass

    def ret_value(self, flow, s, expr, func):
        pass

    def forget(self, flow, s, sym):
        """Drop every fact whose key mentions the value symbol `sym`."""
        dead = [k for k in s.d if isinstance(k, tuple) and any(isinstance(x, str) and sym in x for x in k)]
        for k in dead:
            del s.d[k]
        if dead:
            s._k = None


def _nonnull_arm(t):
    """'(C ? A : NULL)' or '(C ? NULL : A)' -> A (top-level operators only), else None"""
    if not (t.startswith("(") and t.endswith(")")):
        return None
    inner = t[1:-1]
    depth, q, c = 0, None, None
    for i, ch_ in enumerate(inner):
        depth += ch_ == "("
        depth -= ch_ == ")"
        if depth < 0:
            return None
        if depth == 0 and inner.startswith(" ? ", i) and q is None:
            q = i
        if depth == 0 and inner.startswith(" : ", i) and q is not None and c is None:
            c = i
    if q is None or c is None:
        return None
    a, b = inner[q + 3:c], inner[c + 3:]
    if b in ("NULL", "0"):
        return a
    if a in ("NULL", "0"):
        return b
    return None


def _split_sum(t):
    """('A', 'B') for a canonical string '(A + B)' whose left part is not a number (pointer + index), else None"""
    if not (t.startswith("(") and t.endswith(")")):
        return None
    inner, depth = t[1:-1], 0
    for i, ch_ in enumerate(inner):
        depth += ch_ == "("
        depth -= ch_ == ")"
        if depth < 0:
            return None
        if depth == 0 and inner.startswith(" + ", i):
            a, b = inner[:i], inner[i + 3:]
            if a and b and not a.lstrip("-").isdigit() and _bal(a) and _bal(b) and "->" in a or "." in a:
                return a, b
            return None
    return None


def _bal(t):
    d = 0
    for ch_ in t:
        d += ch_ == "("
        d -= ch_ == ")"
        if d < 0:
            return False
    return d == 0


class Out:
    __slots__ = ("n", "b", "c", "r")

    def __init__(self, n=None):
        self.n = n or []
        self.b, self.c, self.r = [], [], []


class Flow:
    def __init__(self, model, func, domain, max_depth=4):
        self.m = model
        self.root = func
        self.dom = domain
        self.max_depth = max_depth
        self.stack = [func]
        self.snap = 0
        self._line = 0
        self._cur_parts = None
        self.trace = []          # context: functions currently inlined
        self._memo = {}

    # ------------------------------------------------------------------
    # canonical value strings
    def canon(self, s, n, depth=0):
        if n is None:
            return "?"
        if is_null_expr(n):
            return "NULL"
        n = strip(n, casts=True)
        k = n["kind"]
        ch = kids(n)
        if k == "DeclRefExpr":
            ref = n.get("ref", {})
            rid = ref.get("id")
            if rid in s.env and s.env[rid] is not None:
                return s.env[rid]
            return ref.get("name") or "?"
        if k == "MemberExpr":
            base = self.canon(s, ch[0], depth)
            if not n.get("name"):
                return base + ("->" if n.get("isArrow") else ".") + "<anon>"
            if base.endswith("<anon>"):
                return base[:-6] + n["name"]
            if n.get("isArrow") and base.startswith("(") and " ? " in base:
                arm = _nonnull_arm(base)
                if arm is not None:
                    base = arm              # (c ? p : NULL)->f is only defined when it is p->f
            if base.startswith("&") and n.get("isArrow") and not base.startswith("&("):
                return base[1:] + "." + n["name"]
            if n.get("isArrow"):
                sp = _split_sum(base)
                if sp is not None:
                    return "%s[%s].%s" % (sp[0], sp[1], n["name"])       # (p + i)->f  ==  p[i].f
                mm_ = re.search(r"(?:->|\.)(\w+)$", base)
                if mm_ and mm_.group(1) in self.m.array_fields():
                    return "%s[0].%s" % (base, n["name"])                # q->F->g  ==  q->F[0].g
            return base + ("->" if n.get("isArrow") else ".") + n["name"]
        if k == "UnaryOperator":
            op = n.get("opcode")
            inner = self.canon(s, ch[0], depth)
            if op == "*" and "*" in (strip(ch[0], casts=True).get("type") or ""):
                sp = _split_sum(inner)
                if sp is not None:
                    return "%s[%s]" % (sp[0], sp[1])
                mm_ = re.search(r"(?:->|\.)(\w+)$", inner)
                if mm_ and mm_.group(1) in self.m.array_fields():
                    return "%s[0]" % inner
            if op == "&" and inner.startswith("*"):
                return inner[1:]
            if op == "*" and inner.startswith("&"):
                return inner[1:]
            if n.get("isPostfix"):
                return inner + op
            return op + inner
        if k in ("BinaryOperator", "CompoundAssignOperator"):
            l_, r_ = self.canon(s, ch[0], depth), self.canon(s, ch[1], depth)
            if n.get("opcode") == "-" and l_.startswith("&" + r_ + "[") and l_.endswith("]"):
                inner_ = l_[len(r_) + 2:-1]
                if inner_.count("[") == inner_.count("]"):
                    return inner_                      # &A[i] - A  ==  i
            return "(%s %s %s)" % (l_, n.get("opcode"), r_)
        if k == "ArraySubscriptExpr":
            return "%s[%s]" % (self.canon(s, ch[0], depth), self.canon(s, ch[1], depth))
        if k == "ConditionalOperator":
            return "(%s ? %s : %s)" % tuple(self.canon(s, c, depth) for c in ch[:3])
        if k == "CallExpr":
            nm = callee_ref(n)
            args = [self.canon(s, a, depth) for a in ch[1:]]
            if nm is not None and depth < 8:
                f = self.m.funcs.get(self.m.resolve(self.cur_unit(), nm))
                if f is not None:
                    r = trivial_return(f) if _may_expand(f.name) else None
                    if r is not None and len(f.params) == len(args):
                        s2 = State(dict(s.env), s.d)
                        for p, a in zip(f.params, args):
                            s2.env[p["id"]] = a
                        return self.canon(s2, r, depth + 1)
            if nm is None:
                return "(*%s)(%s)" % (self.canon(s, ch[0], depth), ", ".join(args))
            return "%s(%s)" % (nm, ", ".join(args))
        if k == "IntegerLiteral":
            return str(n.get("value"))
        return render(n)

    def cur_unit(self):
        return self.stack[-1].unit

    def cur_func(self):
        return self.stack[-1]

    # ------------------------------------------------------------------
    def run(self, init=None):
        s0 = init or State()
        for p in self.root.params:
            s0.env[p["id"]] = p.get("name")
        out = self.block(self.root.body, [s0])
        for s in out.n:
            self.dom.at_return(self, s, None, None)
        for s, node, val in out.r:
            self.dom.at_return(self, s, node, val)
        if out.b or out.c:
            raise AnalysisBroken("%s: break/continue outside a loop" % self.root.key)
        return out

    # ------------------------------------------------------------------
    # statements
    def block(self, n, S):
        out = Out(S)
        for c in kids(n):
            if not out.n:
                break
            o = self.stmt(c, out.n)
            out.n = o.n
            out.b += o.b
            out.c += o.c
            out.r += o.r
        return out

    def stmt(self, n, S):
        S = dedupe(S)
        k = n["kind"]
        if k == "CompoundStmt":
            return self.block(n, S)
        if k == "IfStmt":
            ch = kids(n)
            T, F = self.cond(ch[0], S)
            o1 = self.stmt(ch[1], T) if T else Out([])
            o2 = self.stmt(ch[2], F) if (len(ch) > 2 and F) else Out(F)
            o = Out(dedupe(o1.n + o2.n))
            o.b, o.c, o.r = o1.b + o2.b, o1.c + o2.c, o1.r + o2.r
            return o
        if k == "WhileStmt":
            ch = kids(n)
            return self.loop(S, cond=ch[0], body=ch[1], inc=None, test_first=True)
        if k == "DoStmt":
            ch = kids(n)
            body, cond = ch[0], ch[1]
            if int_value(cond) == 0 and all(_is_sizeof_stmt(c) for c in kids(body)):
                return Out(S)      # NDEBUG assertion
            return self.loop(S, cond=cond, body=body, inc=None, test_first=False)
        if k == "ForStmt":
            ch = kids(n)          # init, condvar, cond, inc, body
            init, cond, inc, body = ch[0], ch[2], ch[3], ch[4]
            if init["kind"] != "Null":
                o = self.stmt(init, S)
                S = o.n
            return self.loop(S, cond=None if cond["kind"] == "Null" else cond, body=body,
                             inc=None if inc["kind"] == "Null" else inc, test_first=True)
        if k == "ReturnStmt":
            o = Out([])
            ch = kids(n)
            if ch:
                for Sx, arm in self.split_arms(ch[0], S):
                    for s, v in self.value(arm, Sx):
                        if len(self.stack) > 1:
                            s = s.copy()
                            self.dom.ret_value(self, s, arm, self.cur_func())
                        o.r.append((s, n, v))
            else:
                o.r = [(s, n, None) for s in S]
            return o
        if k == "BreakStmt":
            o = Out([])
            o.b = S
            return o
        if k == "ContinueStmt":
            o = Out([])
            o.c = S
            return o
        if k == "DeclStmt":
            for d in kids(n):
                if d["kind"] == "VarDecl":
                    ini = kids(d)
                    if d.get("storageClass") == "static":
                        continue
                    if ini:
                        nxt = []
                        for Sx, arm in self.split_arms(ini[0], S):
                          for s, v in self.value(arm, Sx):
                            s = s.copy()
                            self.dom.local_assign(self, s, d["id"], d.get("name"), arm, "=", d)
                            t_ = (d.get("dtype") or d.get("type") or "")
                            if t_.replace("const ", "").startswith("struct ") and "*" not in t_:
                                v = d.get("name")          # a struct copy is a new value, not an alias of its source
                            s.env[d["id"]] = v if v is not None else d.get("name")
                            self.dom.local_decl(self, s, d)
                            nxt.append(s)
                        S = dedupe(nxt)
                    else:
                        nxt = []
                        for s in S:
                            s = s.copy()
                            s.env[d["id"]] = d.get("name")
                            nxt.append(s)
                        S = nxt
            return Out(S)
        if k in ("NullStmt", "Null"):
            return Out(S)
        if k in ("SwitchStmt", "GotoStmt", "LabelStmt", "IndirectGotoStmt", "GCCAsmStmt"):
            raise AnalysisBroken("%s: unsupported statement %s at %s" % (self.cur_func().key, k, loc(n)))
        # expression statement
        return Out(self.effects(n, S))

    def _loop_assigned(self, parts):
        """ids of locals assigned (not declared) inside the loop parts."""
        declared, assigned = set(), {}
        for part in parts:
            if part is None:
                continue
            for x in walk(part):
                k = x["kind"]
                if k == "VarDecl":
                    declared.add(x["id"])
                tgt = None
                if (k == "BinaryOperator" and x.get("opcode") == "=") or k == "CompoundAssignOperator":
                    tgt = strip(kids(x)[0], casts=True)
                elif k == "UnaryOperator" and x.get("opcode") in ("++", "--"):
                    tgt = strip(kids(x)[0], casts=True)
                if tgt is not None and tgt["kind"] == "DeclRefExpr" and \
                        tgt["ref"].get("kind") in ("VarDecl", "ParmVarDecl"):
                    assigned[tgt["ref"]["id"]] = tgt["ref"]["name"]
        self._declared = declared
        return {i: n for i, n in assigned.items() if i not in declared}

    def _havoc(self, S, hv, tag, declared=(), entry=False, parts=None):
        out = []
        for s in S:
            s = s.copy()
            for vid in declared:
                s.env.pop(vid, None)
                s.d.pop(("v", vid), None)
            if hv is not None and tag and not tag.endswith("'"):
                self.dom.at_loop_head(self, s, hv, tag, {"names": hv, "entry": entry, "parts": parts or self._cur_parts})
            for vid, name in (hv or {}).items():
                if vid in s.env:
                    sym = "%s#%s" % (name, tag)
                    self.dom.forget(self, s, sym)
                    s.env[vid] = sym
            s._k = None
            out.append(s)
        return dedupe(out)

    def loop(self, S, cond, body, inc, test_first):
        """Fixed point over the set of configurations at the loop head.  Locals assigned in
        the loop are replaced by an opaque per-loop symbol at the head (facts about the
        previous iteration's value are forgotten), so env converges immediately and the
        domain facts iterate on their finite lattice."""
        hv = self._loop_assigned([cond, body, inc])
        decl = set(self._declared)
        saved_parts = getattr(self, "_cur_parts", None)
        self._cur_parts = [cond, body, inc]
        try:
            return self._loop_impl(S, cond, body, inc, test_first, hv, decl)
        finally:
            self._cur_parts = saved_parts

    def _loop_impl(self, S, cond, body, inc, test_first, hv, decl):
        if self.dom.loop_mode(self, body) == "once" and test_first:
            return self._loop_once(S, cond, body, inc, hv, decl)
        if self.dom.loop_mode(self, body) == "once" and not test_first:
            # do { body } while (cond): one representative round, then out (whether the test held or not)
            tag = "L%s" % (body.get("line") or "?")
            o = self.stmt(body, self._havoc(S, hv, tag, decl, entry=True))
            exits, rets = list(o.b), list(o.r)
            nxt = o.n + o.c
            if cond is not None and nxt:
                # the round after which the test fails stands for the last round of any run: the values at its start are
                # the havocked head values, so a run of several rounds adds no new path (and a path that leaves although
                # the test held would be an artefact)
                T, F = self.cond(cond, nxt)
                exits += F
            else:
                exits += nxt
            out = Out(dedupe(exits))
            out.r = rets
            return out
        tag = "L%s" % (body.get("line") or cond and cond.get("line") or "?")
        seen = set()
        exits, rets = [], []
        if not test_first:
            # do { body } while (cond): the loop head is the start of the body - reached on entry and, after the test held,
            # over the back edge; both arrivals are havocked at that one point (so inferred head invariants speak about it)
            work = self._havoc(S, hv, tag, decl, entry=True)
            iters = 0
            while work:
                iters += 1
                if iters > MAX_LOOP_ITERS:
                    raise AnalysisBroken("%s: loop does not reach a fixed point" % self.cur_func().key)
                new = []
                for s in work:
                    if s.key() not in seen:
                        seen.add(s.key())
                        new.append(s)
                if not new:
                    break
                o = self.stmt(body, new)
                exits += o.b
                rets += o.r
                nxt = o.n + o.c
                if cond is not None and nxt:
                    T, F = self.cond(cond, nxt)
                else:
                    T, F = nxt, []
                exits += F
                work = self._havoc(T, hv, tag, decl)
            out = Out(self._havoc(exits, None, tag, decl) if decl else dedupe(exits))
            out.r = rets
            return out
        else:
            heads = S
        work = self._havoc(heads, hv, tag, decl, entry=test_first)
        iters = 0
        while work:
            iters += 1
            if iters > MAX_LOOP_ITERS:
                raise AnalysisBroken("%s: loop does not reach a fixed point" % self.cur_func().key)
            new = []
            for s in work:
                if s.key() not in seen:
                    seen.add(s.key())
                    new.append(s)
            if not new:
                break
            if cond is not None:
                T, F = self.cond(cond, new)
            else:
                T, F = new, []
            exits += F
            if not T:
                break
            o = self.stmt(body, T)
            exits += o.b
            rets += o.r
            nxt = o.n + o.c
            if inc is not None and nxt:
                nxt = self.effects(inc, nxt)
            work = self._havoc(nxt, hv, tag, decl)
        out = Out(self._havoc(exits, None, tag, decl) if decl else dedupe(exits))
        out.r = rets
        return out

    def _loop_once(self, S, cond, body, inc, hv, decl):
        """Bounded treatment for loops without a region end inside (used by trace domains, whose
        states do not converge): the paths 'zero iterations' and 'one representative iteration'."""
        tag = "L%s" % (body.get("line") or "?")
        heads = self._havoc(S, hv, tag, decl, entry=True)
        if cond is not None:
            T, F = self.cond(cond, heads)
        else:
            T, F = heads, []
        exits = list(F)
        rets = []
        if T:
            o = self.stmt(body, T)
            exits += o.b
            rets += o.r
            nxt = o.n + o.c
            if inc is not None and nxt:
                nxt = self.effects(inc, nxt)
            nxt = self._havoc(nxt, hv, tag + "'", decl)
            exits += nxt
        out = Out(dedupe(exits))
        out.r = rets
        return out

    # ------------------------------------------------------------------
    # conditions
    def cond(self, n, S):
        """Split S into (states where n is true, states where n is false)."""
        n0 = strip(n, casts=True)
        k = n0["kind"]
        if not S:
            return [], []
        if k == "UnaryOperator" and n0.get("opcode") == "!":
            T, F = self.cond(kids(n0)[0], S)
            return F, T
        if k == "BinaryOperator" and n0.get("opcode") == "&&":
            T1, F1 = self.cond(kids(n0)[0], S)
            T2, F2 = self.cond(kids(n0)[1], T1)
            return T2, dedupe(F1 + F2)
        if k == "BinaryOperator" and n0.get("opcode") == "||":
            T1, F1 = self.cond(kids(n0)[0], S)
            T2, F2 = self.cond(kids(n0)[1], F1)
            return dedupe(T1 + T2), F2
        v = int_value(n0)
        if v is not None and k in ("IntegerLiteral",):
            return (S, []) if v != 0 else ([], S)
        if k == "CallExpr":
            f = self._inlinable(n0)
            if f is not None:
                T, F = [], []
                dead = None
                for s, node, val in self.inline_call(f, n0, S, keep_env=True):
                    # evaluate the returned expression in the callee's environment
                    if node is None or not kids(node):
                        raise AnalysisBroken("%s used as a condition returns no value" % f.key)
                    self.stack.append(f)
                    try:
                        t, fl = self.cond(kids(node)[0], [s])
                    finally:
                        self.stack.pop()
                    T += t
                    F += fl
                dead = self._locals_of(f)
                for lst in (T, F):
                    for i, st in enumerate(lst):
                        if any(k in st.env for k in dead):
                            st = st.copy()
                            for k in dead:
                                st.env.pop(k, None)
                                st.d.pop(("v", k), None)
                            st._k = None
                            lst[i] = st
                return dedupe(T), dedupe(F)
        if k == "BinaryOperator" and n0.get("opcode") in ("==", "!=") and \
                (self._is_inl_call(kids(n0)[0]) or self._is_inl_call(kids(n0)[1])):
            # f(x) == true / false
            a, b = kids(n0)
            if self._is_inl_call(b):
                a, b = b, a
            bv = int_value(b)
            if bv in (0, 1):
                T, F = self.cond(a, S)
                if (n0["opcode"] == "==") == (bv == 1):
                    return T, F
                return F, T
        # side effects inside the atom first
        S = self.effects_inside(n0, S)
        T, F = [], []
        for s in S:
            T += self.dom.assume(self, s, n0, True)
            F += self.dom.assume(self, s, n0, False)
        return dedupe(T), dedupe(F)

    def _is_inl_call(self, n):
        n = strip(n, casts=True)
        return n["kind"] == "CallExpr" and self._inlinable(n) is not None

    def _inlinable(self, call):
        nm = callee_ref(call)
        if nm is None:
            return None
        f = self.m.funcs.get(self.m.resolve(self.cur_unit(), nm))
        if f is None or f in self.stack or len(self.stack) > self.max_depth:
            return None
        if not self.dom.inline(self, f, call):
            return None
        return f

    # ------------------------------------------------------------------
    # expressions with effects
    def effects_inside(self, n, S):
        """Apply the side effects of sub-expressions of an atom (assignments, calls)."""
        has = False
        for x in walk(n):
            if x["kind"] in ("CallExpr", "CompoundAssignOperator") or \
                    (x["kind"] == "BinaryOperator" and x.get("opcode") == "=") or \
                    (x["kind"] == "UnaryOperator" and x.get("opcode") in ("++", "--")):
                has = True
                break
        if not has:
            return S
        return self.effects(n, S, top=False)

    def effects(self, n, S, top=True):
        """Execute expression n for its effects; returns successor states."""
        if not S:
            return []
        k = n["kind"]
        ch = kids(n)
        if k in ("ParenExpr", "ImplicitCastExpr", "CStyleCastExpr", "ConstantExpr"):
            return self.effects(ch[0], S, top) if ch else S
        if k == "UnaryExprOrTypeTraitExpr":
            return S          # sizeof: operand not evaluated
        if k == "ConditionalOperator":
            T, F = self.cond(ch[0], S)
            return dedupe(self.effects(ch[1], T, top) + self.effects(ch[2], F, top))
        if k == "BinaryOperator" and n.get("opcode") in ("&&", "||"):
            T, F = self.cond(n, S)
            return dedupe(T + F)
        if k == "BinaryOperator" and n.get("opcode") == ",":
            return self.effects(ch[1], self.effects(ch[0], S, top), top)
        if (k == "BinaryOperator" and n.get("opcode") == "=") or k == "CompoundAssignOperator":
            out = []
            op = n.get("opcode")
            for Sx, arm in self.split_arms(ch[1], S):
                for s, v in self.value(arm, Sx):
                    out += self.assign(s, ch[0], v, arm, op, n)
            return dedupe(out)
        if k == "UnaryOperator" and n.get("opcode") in ("++", "--"):
            out = []
            for s in self.effects_inside(ch[0], S) if False else S:
                out += self.assign(s, ch[0], "1", None, "+=" if n["opcode"] == "++" else "-=", n)
            return dedupe(out)
        if k == "CallExpr":
            return dedupe([s for s, v in self.value(n, S)])
        if k == "StmtExpr":
            o = self.stmt(ch[0], S)
            return o.n
        # generic: evaluate children left to right
        for c in ch:
            S = self.effects(c, S, False)
        return S

    def split_arms(self, n, S):
        """[(states, node)]: a conditional expression as value is split into its arms under the respective outcome of its
        test (recursively), so that a domain that is handed the value's node sees the arm that applies."""
        n0 = strip(n, casts=True)
        if n0["kind"] == "ConditionalOperator":
            ch = kids(n0)
            T, F = self.cond(ch[0], S)
            return (self.split_arms(ch[1], T) if T else []) + (self.split_arms(ch[2], F) if F else [])
        return [(S, n)]

    def value(self, n, S):
        """Evaluate n; returns [(state, value string or None)]."""
        if is_null_expr(n):
            return [(s, "NULL") for s in S]
        n0 = strip(n, casts=True)
        if n0["kind"] == "CallExpr":
            f = self._inlinable(n0)
            if f is not None:
                res = []
                for s, node, val in self.inline_call(f, n0, S):
                    res.append((s, val))
                return res
            # opaque call: evaluate arguments' effects, then hand to the domain
            S2 = S
            for a in kids(n0)[1:]:
                S2 = self.effects_inside(a, S2)
            callee_expr = kids(n0)[0]
            S2 = self.effects_inside(callee_expr, S2) if callee_ref(n0) is None else S2
            out = []
            nm = callee_ref(n0)
            for s in S2:
                args = [self.canon(s, a) for a in kids(n0)[1:]]
                v = self.canon(s, n0)
                for s2 in self.dom.call(self, s, n0, nm, args):
                    out.append((s2, v))
            return out
        if n0["kind"] == "ConditionalOperator":
            ch = kids(n0)
            T, F = self.cond(ch[0], S)
            return self.value(ch[1], T) + self.value(ch[2], F)
        S2 = self.effects_inside(n0, S)
        return [(s, self.canon(s, n0)) for s in S2]

    def assign(self, s, lhs, v, rhs, op, node):
        self._line = node.get("line") or self._line
        l = strip(lhs, casts=True)
        s = s.copy()
        if l["kind"] == "DeclRefExpr" and l["ref"].get("kind") in ("VarDecl", "ParmVarDecl") \
                and l["ref"]["id"] in s.env:
            rid = l["ref"]["id"]
            self.dom.local_assign(self, s, rid, l["ref"]["name"], rhs, op, node)
            if op == "=":
                s.env[rid] = v if v is not None else l["ref"]["name"]
            else:
                old = s.env.get(rid) or l["ref"]["name"]
                s.env[rid] = "(%s %s %s)" % (old, op[:-1], v)
            s._k = None
            return [s]
        lc = self.canon(s, l)
        self.snapshot(s, lc)
        return self.dom.store(self, s, lc, l, v, rhs, op, node)

    def age_env(self, s, tag):
        """The process was suspended: every local that holds a value *read from shared memory* before the
        suspension now holds a possibly outdated copy.  Its value string is wrapped as pre(tag: ...) so that it
        no longer compares equal to a fresh read of the same location."""
        for k, v in list(s.env.items()):
            if not isinstance(v, str) or v.startswith("pre(") or v.startswith("&"):
                continue
            if "->" in v and not re.fullmatch(r"[\w]+", v):
                s.env[k] = "pre(%s: %s)" % (tag, v)
        s._k = None

    def snapshot(self, s, lc):
        """A store to location lc: value strings that mention lc now denote the old value."""
        pat = re.compile(r"(?<![\w>.\]])" + re.escape(lc) + r"(?![\w\[@])")
        hit = [k for k, v in s.env.items() if isinstance(v, str) and pat.search(v)]
        if not hit:
            return
        new = "%s@%s" % (lc, self._line or 0)
        for k in hit:
            s.env[k] = pat.sub(new.replace("\\", "\\\\"), s.env[k])
        s._k = None
        self.dom.rename(self, s, lc, new)

    # ------------------------------------------------------------------
    def inline_call(self, f, call, S, keep_env=False):
        """Execute f inline for each state; returns [(state, return node, value string)]."""
        args = kids(call)[1:]
        res = []
        for s in S:
            s = s.copy()
            # evaluate arguments (effects) and bind parameters
            cur = [s]
            for a in args:
                cur = self.effects_inside(a, cur)
            for s1 in cur:
                s1 = s1.copy()
                saved = {}
                for p, a in zip(f.params, args):
                    saved[p["id"]] = s1.env.get(p["id"])
                    self.dom.local_assign(self, s1, p["id"], p.get("name"), a, "=", call)
                    s1.env[p["id"]] = self.canon(s1, a)
                self.stack.append(f)
                try:
                    o = self.block(f.body, [s1])
                    for s2 in o.n:
                        res.append((s2, None, None))
                    for s2, node, val in o.r:
                        res.append((s2, node, val))
                finally:
                    self.stack.pop()
        if keep_env:
            return res
        # the callee's parameters and locals are dead in the caller
        dead = self._locals_of(f)
        out = []
        for s2, node, val in res:
            if any(k in s2.env for k in dead):
                s2 = s2.copy()
                for k in dead:
                    s2.env.pop(k, None)
                    s2.d.pop(("v", k), None)
                s2._k = None
            out.append((s2, node, val))
        return out

    def _locals_of(self, f):
        if f.key not in self._memo:
            ids = {p["id"] for p in f.params}
            for x in walk(f.body):
                if x["kind"] == "VarDecl":
                    ids.add(x["id"])
            self._memo[f.key] = ids
        return self._memo[f.key]


def _is_sizeof_stmt(n):
    c = strip(n, casts=True)
    return c["kind"] in ("UnaryExprOrTypeTraitExpr", "NullStmt")


def _simple(x):
    return re.fullmatch(r"[\w.>\-\[\]]+", x) is not None
