"""AFFINE - affine bookkeeping with ghost totals and inferred loop invariants.

Built on FLOW.  Every integer local and every tracked memory location carries
an affine form  sum(c_i * atom_i) + c0  over symbolic atoms (values at the
start of the current atomic region, parameters, opaque expressions).  Rules
declare *ghost* quantities (e.g. "total taken from the level by this call")
that are updated whenever a tracked field is stored.  At loop heads the
variables assigned in the loop are replaced by fresh atoms *subject to the
affine equalities that are inductive* there; these invariants are not stated
by hand but inferred Houdini-style: the candidate space starts as all affine
equalities over the loop's variables that hold on entry and is intersected
with the equalities that hold at every back edge (rational null spaces,
Gaussian elimination with Fractions) until it is stable.  Obligations
(conservation at returns, dominance of every store by a test that makes it
safe) are then checked against the final run.  No path is executed and no
solver is used; machine integers are treated as mathematical integers and
wrap-around is excluded by the dominance/overflow obligations themselves.
"""
import re
from fractions import Fraction

from ..astutil import kids, strip, walk, callee_ref, render, is_null_expr, int_value, loc
from ..frontend import AnalysisBroken
from .flow import Flow, Domain, State


# ----------------------------------------------------------------------------
class Aff:
    __slots__ = ("t", "c", "_k")

    def __init__(self, terms=None, c=0):
        self.t = {a: Fraction(v) for a, v in (terms or {}).items() if v != 0}
        self.c = Fraction(c)
        self._k = None

    @staticmethod
    def atom(name):
        return Aff({name: 1})

    @staticmethod
    def const(v):
        return Aff({}, v)

    def __add__(self, o):
        t = dict(self.t)
        for a, v in o.t.items():
            t[a] = t.get(a, 0) + v
        return Aff(t, self.c + o.c)

    def __sub__(self, o):
        return self + o.scale(-1)

    def scale(self, k):
        return Aff({a: v * k for a, v in self.t.items()}, self.c * k)

    def is_const(self):
        return not self.t

    def is_zero(self):
        return not self.t and self.c == 0

    def key(self):
        if self._k is None:
            self._k = (tuple(sorted(self.t.items())), self.c)
        return self._k

    def __eq__(self, o):
        return isinstance(o, Aff) and self.key() == o.key()

    def __hash__(self):
        return hash(self.key())

    def atoms(self):
        return set(self.t)

    def subst(self, name, form):
        if name not in self.t:
            return self
        k = self.t[name]
        rest = Aff({a: v for a, v in self.t.items() if a != name}, self.c)
        return rest + form.scale(k)

    def __repr__(self):
        parts = []
        for a, v in sorted(self.t.items()):
            if v == 1:
                parts.append("+ %s" % a)
            elif v == -1:
                parts.append("- %s" % a)
            else:
                parts.append("%s %s*%s" % ("+" if v > 0 else "-", abs(v), a))
        if self.c != 0 or not parts:
            parts.append("%s %s" % ("+" if self.c >= 0 else "-", abs(self.c)))
        s = " ".join(parts)
        return s[2:] if s.startswith("+ ") else s


# ----------------------------------------------------------------------------
# rational linear algebra
def nullspace(rows, ncols):
    """Basis of {x : rows . x = 0} over the rationals."""
    m = [list(map(Fraction, r)) for r in rows]
    piv = []
    r = 0
    for c in range(ncols):
        p = None
        for i in range(r, len(m)):
            if m[i][c] != 0:
                p = i
                break
        if p is None:
            continue
        m[r], m[p] = m[p], m[r]
        pv = m[r][c]
        m[r] = [x / pv for x in m[r]]
        for i in range(len(m)):
            if i != r and m[i][c] != 0:
                f = m[i][c]
                m[i] = [a - f * b for a, b in zip(m[i], m[r])]
        piv.append(c)
        r += 1
        if r == len(m):
            break
    free = [c for c in range(ncols) if c not in piv]
    basis = []
    for fc in free:
        v = [Fraction(0)] * ncols
        v[fc] = Fraction(1)
        for i, pc in enumerate(piv):
            v[pc] = -m[i][fc]
        basis.append(v)
    return basis


def equalities_holding(forms):
    """forms: list of Aff for variables v_0..v_{n-1}.  Returns a basis of all (c_0..c_{n-1}, d) with
    sum c_i * v_i = d as an identity in the atoms."""
    n = len(forms)
    atoms = sorted(set().union(*[f.atoms() for f in forms])) if forms else []
    rows = []
    for a in atoms:
        rows.append([f.t.get(a, 0) for f in forms] + [0])
    rows.append([f.c for f in forms] + [-1])
    return nullspace(rows, n + 1)


def restrict(basis, forms):
    """Sub-space of span(basis) (vectors (c, d)) whose members hold for `forms`."""
    if not basis:
        return []
    n = len(forms)
    atoms = sorted(set().union(*[f.atoms() for f in forms])) if forms else []
    rows = []
    for a in atoms:
        rows.append([f.t.get(a, 0) for f in forms] + [0])
    rows.append([f.c for f in forms] + [-1])
    # A . (B^T lam) = 0
    ab = [[sum(r[j] * b[j] for j in range(n + 1)) for b in basis] for r in rows]
    lam = nullspace(ab, len(basis))
    out = []
    for l in lam:
        out.append([sum(l[i] * basis[i][j] for i in range(len(basis))) for j in range(n + 1)])
    return out


# ----------------------------------------------------------------------------
class AffineDomain(Domain):
    """
    spec: {
      'tracked':   regex of memory locations (canon strings) that carry values across statements,
      'volatile':  regex of tracked locations other processes may change while we are suspended,
      'ghosts':    {name: (regex of field location, +1|-1)}  ghost += sign * (new - old) at stores to the field,
    }
    """

    def __init__(self, model, root, spec, invariants, may_yield, log):
        self.m = model
        self.root = root
        self.spec = spec
        self.inv = invariants          # loop tag -> {'vars': [...], 'basis': [[...]]} candidate invariants
        self.may_yield = may_yield
        self.log = log                 # collected arrivals, obligations, facts
        self.tracked = re.compile(spec["tracked"])
        self.volatile = re.compile(spec.get("volatile", "$^"))

    # -- values ---------------------------------------------------------
    def inline(self, flow, callee, call):
        if callee is None or callee.key in self.may_yield:
            return False
        return callee.static and not callee.in_header

    def get(self, flow, s, key, default_atom):
        v = s.d.get(("v", key))
        return v if v is not None else Aff.atom(default_atom)

    def eval(self, flow, s, n):
        n0 = strip(n, casts=True)
        k = n0["kind"]
        ch = kids(n0)
        v = int_value(n0)
        if v is not None and k in ("IntegerLiteral", "UnaryOperator", "BinaryOperator"):
            return Aff.const(v)
        if k == "DeclRefExpr" and n0.get("ref", {}).get("kind") in ("VarDecl", "ParmVarDecl"):
            rid = n0["ref"]["id"]
            if ("v", rid) in s.d:
                return s.d[("v", rid)]
            return Aff.atom(flow.canon(s, n0))
        if k == "BinaryOperator":
            op = n0["opcode"]
            if op in ("+", "-"):
                a, b = self.eval(flow, s, ch[0]), self.eval(flow, s, ch[1])
                return a + b if op == "+" else a - b
            if op == "*":
                a, b = self.eval(flow, s, ch[0]), self.eval(flow, s, ch[1])
                if a.is_const():
                    return b.scale(a.c)
                if b.is_const():
                    return a.scale(b.c)
        if k in ("MemberExpr", "UnaryOperator", "ArraySubscriptExpr"):
            lc = flow.canon(s, n0)
            if ("v", lc) in s.d:
                return s.d[("v", lc)]
            if self.tracked.search(lc):
                return Aff.atom(lc + "@" + str(s.d.get(("seg",), "entry")))
            return Aff.atom(lc)
        if k == "CallExpr":
            r = s.d.get(("retv",))
            if r is not None and r[0] == callee_ref(n0):
                return r[1]
        return Aff.atom(flow.canon(s, n0))

    # -- hooks ----------------------------------------------------------
    def local_assign(self, flow, s, rid, name, rhs, op, node):
        if rhs is None:
            cur = s.d.get(("v", rid)) or Aff.atom(name)
            val = Aff.const(1)
        else:
            val = self.eval(flow, s, rhs)
            cur = s.d.get(("v", rid)) or Aff.atom(flow.canon(s, {"kind": "DeclRefExpr", "ref": {"id": rid, "name": name,
                                                                                               "kind": "VarDecl"}}))
        if op == "=" and rhs is not None:
            r0 = strip(rhs, casts=True)
            if r0["kind"] == "BinaryOperator" and r0.get("opcode") in ("<", "<=", ">", ">=", "==", "!="):
                if not hasattr(self, "_flag_nodes"):
                    self._flag_nodes = {}
                self._flag_nodes[id(r0)] = r0
                s.d[("flag", rid)] = (r0["opcode"], self.eval(flow, s, kids(r0)[0]), self.eval(flow, s, kids(r0)[1]), id(r0))
            else:
                s.d.pop(("flag", rid), None)
        s.d.pop(("flagval", rid), None)          # a (re)assigned flag has no known outcome yet
        if op == "=":
            new = val
        elif op in ("+=", "++"):
            new = cur + val
        elif op in ("-=", "--"):
            new = cur - val
        else:
            new = Aff.atom("%s@%s" % (name, node.get("line")))
        s.d[("v", rid)] = new
        s._k = None

    def store(self, flow, s, lc, lhs, value, rhs, op, node):
        s._k = None
        where = self.m.rel(loc(node))
        old = self.eval(flow, s, lhs)
        if rhs is None:
            val = Aff.const(1)
        else:
            val = self.eval(flow, s, rhs)
        if op == "=":
            new = val
        elif op in ("+=", "++"):
            new = old + val
        elif op in ("-=", "--"):
            new = old - val
        else:
            new = Aff.atom("%s@%s" % (lc, node.get("line")))
        if self.tracked.search(lc):
            for g, (pat, sign) in self.spec.get("ghosts", {}).items():
                if re.search(pat, lc):
                    gv = s.d.get(("v", "ghost:" + g)) or Aff.const(0)
                    s.d[("v", "ghost:" + g)] = gv + (new - old).scale(sign)
            facts = [k[1] for k in s.d if k[0] == "ge"]
            nonneg = [v for k, v in s.d.items() if k[0] == "v" and isinstance(v, Aff) and not str(k[1]).startswith("ghost:bal")]
            self.log["stores"].append({"root": self.root.name, "loc": lc, "op": op, "old": old, "new": new,
                                       "val": val, "where": where, "facts": facts, "node": node,
                                       "func": flow.cur_func().name, "nonneg": nonneg,
                                       "vals": {k[1]: v for k, v in s.d.items() if k[0] == "v"}})
            s.d[("v", lc)] = new
        return [s]

    def call(self, flow, s, call, name, args):
        if name == "cmi_assert_failed":
            return []
        key = self.m.resolve(flow.cur_unit(), name) if name else None
        yields = key in self.may_yield if name else False
        hook = self.spec.get("call_hook")
        if hook is not None:
            r = hook(self, flow, s, call, name, args)
            if r is not None:
                return r
        if yields:
            s = s.copy()
            self.log["yields"].append({"root": self.root.name, "where": self.m.rel(loc(call)), "state": s})
            for k in [k for k in s.d if k[0] == "v" and not k[1].startswith("0x") and self.volatile.search(k[1])]:
                del s.d[k]
            # symbols re-bound by this suspension point (loc@<line>) lose their meaning; all others are immutable
            suffix = "@%s" % call.get("line")
            for k in [k for k in s.d if k[0] in ("ge", "eq") and any(a.endswith(suffix) for a in k[1].atoms())]:
                del s.d[k]
            s.d[("seg",)] = call.get("line")
            s._k = None
            flow.age_env(s, "L%s" % call.get("line"))
        return [s]

    def assume(self, flow, s, cond, truth):
        c = strip(cond, casts=True)
        frozen = None
        if c["kind"] == "DeclRefExpr" and ("flag", c.get("ref", {}).get("id")) in s.d:
            # the same flag tested again: its outcome was fixed the first time
            kv = ("flagval", c["ref"]["id"])
            if kv in s.d:
                if s.d[kv] != bool(truth):
                    return []
                return [s]
            s = s.copy()
            s._k = None
            s.d[kv] = bool(truth)
        if c["kind"] == "DeclRefExpr" and ("flag", c.get("ref", {}).get("id")) in s.d:
            # a boolean local that recorded a comparison: the fact is about the values at the time it was evaluated
            frozen = s.d[("flag", c["ref"]["id"])]
        if frozen is not None or (c["kind"] == "BinaryOperator" and c.get("opcode") in ("<", "<=", ">", ">=", "==", "!=")):
            if frozen is not None:
                op, a, b, c = frozen[0], frozen[1], frozen[2], self._flag_nodes[frozen[3]]
            else:
                a, b = self.eval(flow, s, kids(c)[0]), self.eval(flow, s, kids(c)[1])
                op = c["opcode"]
            if not truth:
                op = {"<": ">=", "<=": ">", ">": "<=", ">=": "<", "==": "!=", "!=": "=="}[op]
            s = s.copy()
            s._k = None
            wrap = self.guard_may_wrap(flow, s, c)
            g = None
            if op == ">=":
                g = a - b
            elif op == "<=":
                g = b - a
            elif op == ">":
                g = a - b - Aff.const(1)
            elif op == "<":
                g = b - a - Aff.const(1)
            noise = re.compile(self.spec.get("fact_noise", r"cookie|->priority|peek_ikey|->status|heap_count|find_index|->name"))
            if g is not None:
                if g.is_const():
                    return [s] if g.c >= 0 else []          # decided: infeasible branch pruned
                if not any(noise.search(a_) for a_ in g.atoms()):
                    s.d[("ge", g, wrap)] = True
            elif op == "==":
                d = a - b
                if d.is_const() and d.c != 0:
                    return []
                if not any(noise.search(a_) for a_ in d.atoms()):
                    s.d[("ge", a - b, wrap)] = True
                    s.d[("ge", b - a, wrap)] = True
                    s.d[("eq", a - b)] = True
            elif op == "!=":
                if (a - b).is_zero():
                    return []
            return [s]
        return [s]

    def guard_may_wrap(self, flow, s, cond):
        """Can the unsigned arithmetic inside this comparison wrap around?  An addition is safe only if
        every operand is bounded (a tracked field bounded by its capacity, the capacity, a constant);
        a subtraction a - b only if b <= a is an established invariant (capacity - level)."""
        bounded = re.compile(self.spec.get("bounded", "$^"))
        safe_sub = re.compile(self.spec.get("safe_sub", "$^"))
        for x in walk(cond):
            if x["kind"] == "BinaryOperator" and x.get("opcode") in ("+", "-") and \
                    "int" in (x.get("type") or "") or (x["kind"] == "BinaryOperator" and x.get("opcode") in ("+", "-")):
                a, b = flow.canon(s, kids(x)[0]), flow.canon(s, kids(x)[1])
                if int_value(kids(x)[0]) is not None or int_value(kids(x)[1]) is not None:
                    continue
                if x["opcode"] == "+":
                    if not (bounded.fullmatch(a) and bounded.fullmatch(b)):
                        return "'%s + %s' can wrap around (an operand is not bounded)" % (a, b)
                else:
                    if not safe_sub.fullmatch("%s - %s" % (a, b)):
                        return "'%s - %s' can wrap below zero" % (a, b)
        return None

    def rename(self, flow, s, old, new):
        pass

    def ret_value(self, flow, s, expr, func):
        s.d[("retv",)] = (func.name, self.eval(flow, s, expr))
        s._k = None

    def forget(self, flow, s, sym):
        dead = []
        for k in s.d:
            if k[0] in ("ge", "eq") and any(sym in a for a in k[1].atoms()):
                dead.append(k)
        for k in dead:
            del s.d[k]
        if dead:
            s._k = None

    def loop_vars(self, flow, s, hv):
        """Variables of the loop-head relation: locals that carry an affine value + persistent tracked memory + ghosts."""
        keys = []
        for k, v in s.d.items():
            if k[0] != "v":
                continue
            if not k[1].startswith("0x") and self.volatile.search(k[1]):
                continue
            keys.append(k[1])
        return sorted(keys, key=str)

    def at_loop_head(self, flow, s, hv, tag, info):
        """Called for each configuration arriving at a loop head (entry or back edge)."""
        names = info["names"]
        keep = self.keep_at_head(flow, s)
        vars_ = self.loop_vars(flow, s, hv)
        forms = [s.d[("v", k)] for k in vars_]
        self.log["arrivals"].setdefault(tag, []).append((vars_, forms, info["entry"]))
        cand = self.inv.get(tag)
        # havoc: every variable assigned in the loop (locals in hv, tracked memory, ghosts) gets a fresh atom,
        # then the candidate equalities are imposed by elimination
        fresh = {}
        touches_memory = self.loop_touches_tracked(flow, info.get("parts") or [])
        for k in vars_:
            if k in keep:
                continue
            is_local = k.startswith("0x")
            if (is_local and k in hv) or (not is_local and touches_memory and
                                          (k.startswith("ghost:") or self.tracked.search(k))):
                nm = names.get(k, k) if is_local else k
                fresh[k] = Aff.atom("%s#%s" % (nm, tag))
        # facts are statements about immutable symbols; only the symbols that this loop head re-binds
        # (name#<tag>) lose their meaning here
        for k in list(s.d):
            if k[0] in ("ge", "eq") and any(a.endswith("#" + tag) for a in k[1].atoms()):
                del s.d[k]
            elif k[0] in ("flag", "flagval"):
                del s.d[k]              # a recorded comparison does not survive the loop head
        if cand and all(v in vars_ for v in cand["vars"]):
            # the candidate relation speaks about the variables common to all arrivals (a local that is first assigned
            # inside the loop has no value on entry); the others are simply havocked
            cvars = cand["vars"]
            cur = {k: (fresh[k] if k in fresh else s.d[("v", k)]) for k in vars_}
            # impose each candidate equality by solving for one havoc'd variable
            solved = set()
            for vec in cand["basis"]:
                # sum c_i v_i = d
                piv = None
                for i, k in enumerate(cvars):
                    if vec[i] != 0 and k in fresh and k not in solved:
                        piv = i
                        break
                if piv is None:
                    continue
                k = cvars[piv]
                rest = Aff.const(vec[-1])
                for i, kk in enumerate(cvars):
                    if i != piv and vec[i] != 0:
                        rest = rest - cur[kk].scale(vec[i])
                sol = rest.scale(Fraction(1) / vec[piv])
                name = list(fresh[k].atoms())[0]
                for kk in vars_:
                    cur[kk] = cur[kk].subst(name, sol)
                cur[k] = sol
                solved.add(k)
            for k in vars_:
                s.d[("v", k)] = cur[k]
        else:
            for k, f in fresh.items():
                s.d[("v", k)] = f
        s._k = None

    def loop_touches_tracked(self, flow, parts, depth=0, seen=None):
        """Can an iteration of this loop change tracked memory or a ghost?  True if the loop (or a helper it
        inlines) contains a store to memory or a call handled by the container hook; pure scans are False."""
        seen = seen if seen is not None else set()
        muts = set(self.spec.get("mutator_calls", ("cmi_hashheap_enqueue", "cmi_hashheap_cancel", "cmi_hashheap_remove",
                                                   "cmi_hashheap_dequeue", "cmi_hashheap_reprioritize")))
        for part in parts:
            if part is None:
                continue
            for x in walk(part):
                k = x["kind"]
                tgt = None
                if (k == "BinaryOperator" and x.get("opcode") == "=") or k == "CompoundAssignOperator":
                    tgt = strip(kids(x)[0], casts=True)
                elif k == "UnaryOperator" and x.get("opcode") in ("++", "--"):
                    tgt = strip(kids(x)[0], casts=True)
                if tgt is not None and tgt["kind"] != "DeclRefExpr":
                    return True
                if k == "CallExpr":
                    nm = callee_ref(x)
                    if nm in muts:
                        return True
                    if nm is None:
                        return True
                    key = self.m.resolve(flow.cur_unit(), nm)
                    if key in self.may_yield:
                        return True
                    f = self.m.funcs.get(key)
                    if f is not None and key not in seen and depth < 3 and self.inline(flow, f, x):
                        seen.add(key)
                        if self.loop_touches_tracked(flow, [f.body], depth + 1, seen):
                            return True
        return False

    def keep_at_head(self, flow, s):
        """Tracked keys whose value is pinned by a typestate fact and must not be havoc'd at loop heads."""
        return ()

    def at_return(self, flow, s, node, value):
        self.log["returns"].append({"root": self.root.name, "where": self.m.rel(loc(node)) if node else
                                    self.m.rel(self.root.where), "value": value, "state": s,
                                    "facts": [k for k in s.d if k[0] in ("ge", "eq")]})


def analyse(model, func, spec, max_rounds=10, domain_cls=None, extra_log=None):
    """Houdini-style inference of loop-head equalities, then the final run's log.

    Each round assumes the current candidate space A(tag) at every loop head.  The next candidates are
    N(tag) = {equalities holding at every *entry* arrival} restricted to those that also hold at every
    *back-edge* arrival (whose forms were computed under A).  A round with N == A is a proof that A holds
    on entry and is preserved by every path around the loop, i.e. A is inductive; only then are the
    obligations of that run reported."""
    domain_cls = domain_cls or AffineDomain
    may_yield = model.reaches({"cmi_coroutine_transfer"})

    def run_once(assumed, rnd):
        log = {"stores": [], "arrivals": {}, "returns": [], "yields": [], "round": rnd, "invariants": {}}
        for k, v in (extra_log or {}).items():
            log[k] = type(v)()
        dom = domain_cls(model, func, spec, assumed, may_yield, log)
        s0 = State()
        for k, v in spec.get("init", {}).items():
            s0.d[("v", k)] = v
        for p_ in func.params:
            t = p_.get("type") or ""
            if "int" in t and "*" not in t:
                s0.d[("v", p_["id"])] = Aff.atom(p_["name"])     # parameters take part in loop-head equalities
        Flow(model, func, dom).run(s0)
        return log

    def normalise(arr):
        vars0 = arr[0][0]
        if any(a[0] != vars0 for a in arr):
            common = [v for v in vars0 if all(v in a[0] for a in arr)]
            arr = [(common, [fm for v, fm in zip(a[0], a[1]) if v in common], a[2]) for a in arr]
            vars0 = common
        return vars0, arr

    def entry_equalities(arr):
        entries = [a for a in arr if a[2]]
        if not entries:
            return []
        basis = equalities_holding(entries[0][1])
        for vs, forms, _ in entries[1:]:
            basis = restrict(basis, forms)
        return basis

    # phase 1: candidate generation (optimistic) - equalities that hold on entry, assuming the entry
    # equalities of the enclosing loops; no back-edge test yet
    cand = {}
    rnd = 0
    for rnd in range(5):
        log = run_once(cand, rnd)
        new = {}
        for tag, arr in log["arrivals"].items():
            vars0, arr = normalise(arr)
            new[tag] = {"vars": vars0, "basis": entry_equalities(arr)}
        same = set(new) == set(cand) and all(_same_space(cand[t], new[t]) for t in new)
        cand = new
        if same:
            break
    # phase 2: Houdini weakening - assume A, keep what holds at every arrival (entry and back edge); A only
    # shrinks, and a round with N == A proves A inductive (holds on entry, preserved around the loop)
    inv = cand
    for rnd2 in range(max_rounds):
        log = run_once(inv, rnd + 1 + rnd2)
        new = {}
        for tag, arr in log["arrivals"].items():
            vars0, arr = normalise(arr)
            if tag in inv and inv[tag]["vars"] == vars0:
                basis = inv[tag]["basis"]
                for vs, forms, _ in arr:
                    basis = restrict(basis, forms)
            else:
                basis = []
            new[tag] = {"vars": vars0, "basis": basis}
        stable = set(new) == set(inv) and all(_same_space(inv[t], new[t]) for t in new)
        inv = new
        if stable:
            break
    else:
        raise AnalysisBroken("%s: loop invariants did not stabilise" % func.key)
    log["invariants"] = inv
    return log


def _intersect(a, b, n):
    """Intersection of the spaces spanned by bases a and b (vectors of length n)."""
    if not a or not b:
        return []
    # x = sum la_i a_i = sum lb_j b_j  ->  [A^T | -B^T] (la, lb) = 0
    rows = []
    for c in range(n):
        rows.append([v[c] for v in a] + [-v[c] for v in b])
    ns = nullspace(rows, len(a) + len(b))
    out = []
    for v in ns:
        la = v[:len(a)]
        out.append([sum(la[i] * a[i][c] for i in range(len(a))) for c in range(n)])
    # drop zero vectors / dependent ones
    res = []
    for v in out:
        if any(x != 0 for x in v):
            res.append(v)
    return _reduce(res, n)


def _reduce(vs, n):
    """Row-reduce to an independent basis."""
    m = [list(v) for v in vs]
    basis = []
    r = 0
    for c in range(n):
        p = None
        for i in range(r, len(m)):
            if m[i][c] != 0:
                p = i
                break
        if p is None:
            continue
        m[r], m[p] = m[p], m[r]
        pv = m[r][c]
        m[r] = [x / pv for x in m[r]]
        for i in range(len(m)):
            if i != r and m[i][c] != 0:
                f = m[i][c]
                m[i] = [a_ - f * b_ for a_, b_ in zip(m[i], m[r])]
        r += 1
        if r == len(m):
            break
    return [v for v in m[:r]]


def _same_space(a, b):
    if a["vars"] != b["vars"] or len(a["basis"]) != len(b["basis"]):
        return False
    n = len(a["vars"]) + 1
    return len(_intersect(a["basis"], b["basis"], n)) == len(a["basis"])


def show_invariants(inv, names):
    out = []
    for tag, d in inv.items():
        for vec in d["basis"]:
            lhs = Aff({str(names.get(k, k)): vec[i] for i, k in enumerate(d["vars"])})
            out.append("%s: %r = %s" % (tag, lhs, vec[-1]))
    return out
