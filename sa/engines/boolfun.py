"""Evaluate small boolean-valued C functions / expressions over a valuation of
their atomic comparisons (used for predicate-agreement rules).  Unsupported
constructs raise AnalysisBroken."""
from ..astutil import kids, strip, render
from ..frontend import AnalysisBroken
from ..vals import is_assert_stmt, is_logger_call


class _Return(Exception):
    def __init__(self, v):
        self.v = v


class BoolEval:
    def __init__(self, atom, what="predicate"):
        """atom(node) -> bool for comparison nodes / other leaves; may raise AnalysisBroken."""
        self.atom = atom
        self.what = what
        self.locals = {}

    def run_body(self, body):
        self.locals = {}
        try:
            self.stmt(body)
        except _Return as r:
            return bool(r.v)
        raise AnalysisBroken("%s can fall off its end" % self.what)

    def stmt(self, n):
        k = n["kind"]
        if k == "CompoundStmt":
            for c in kids(n):
                self.stmt(c)
        elif k == "IfStmt":
            ch = kids(n)
            if self.expr(ch[0]):
                self.stmt(ch[1])
            elif len(ch) > 2:
                self.stmt(ch[2])
        elif k == "ReturnStmt":
            raise _Return(self.expr(kids(n)[0]))
        elif k == "DeclStmt":
            for d in kids(n):
                if d["kind"] == "VarDecl":
                    ini = kids(d)
                    t_ = (d.get("type") or "").replace("const ", "").strip()
                    if t_ in ("bool", "_Bool", "int", "unsigned int"):
                        self.locals[d["id"]] = self.expr(ini[0]) if ini else None
                    # other locals (copies of pointers and values) are not truth values: the atoms name them
        elif k == "BinaryOperator" and n.get("opcode") == "=":
            l = strip(kids(n)[0])
            if l["kind"] == "DeclRefExpr" and l["ref"]["id"] in self.locals:
                self.locals[l["ref"]["id"]] = self.expr(kids(n)[1])
            else:
                raise AnalysisBroken("%s: assignment to %s" % (self.what, render(l)))
        elif is_assert_stmt(n) or is_logger_call(n) or k in ("NullStmt",):
            return
        elif k in ("CStyleCastExpr", "ParenExpr"):   # (void)x
            return
        else:
            raise AnalysisBroken("%s: unsupported statement %s (line %s)" % (self.what, k, n.get("line")))

    def expr(self, n):
        n = strip(n, casts=True)
        k = n["kind"]
        if k == "IntegerLiteral":
            return int(n["value"]) != 0
        if k == "DeclRefExpr" and n["ref"]["id"] in self.locals:
            v = self.locals[n["ref"]["id"]]
            if v is None:
                raise AnalysisBroken("%s reads an uninitialised local" % self.what)
            return v
        if k == "UnaryOperator" and n.get("opcode") == "!":
            return not self.expr(kids(n)[0])
        if k == "ConditionalOperator":
            c, t, e = kids(n)[:3]
            return self.expr(t) if self.expr(c) else self.expr(e)
        if k == "BinaryOperator" and n["opcode"] in ("&&", "||"):
            a = self.expr(kids(n)[0])
            if n["opcode"] == "&&":
                return a and self.expr(kids(n)[1])
            return a or self.expr(kids(n)[1])
        return bool(self.atom(n))
