"""REGION - atomic-region dataflow for the five resource classes.

Cooperative scheduling makes the code between two yield points atomic.  The
domain below tracks, per object expression O of a resource class:

  ('nul', V)        pointer value V is known NULL ('N') / non-NULL ('NN') in this region
  ('sync', O)       abstract value of the recorded pointer state at the last history sample
  ('dirty', O)      the recorded quantity may differ from the last history sample
  ('sig', O, G)     availability guarded by guard G of O increased and G was not signalled since
  ('norec', O)      O->is_recording is known false (no sample owed)

and checks at every region end (return, or call of a function that may yield)
that nothing is owed, and at every holder installation that the slot is known
free in the same region.  Results are shared by C05, C08 and C14.
"""
import re
from collections import defaultdict

from ..astutil import kids, strip, walk, callee_ref, render, is_null_expr, loc, struct_name, pointee
from ..frontend import AnalysisBroken
from .. import inv
from .flow import Flow, Domain, State

# class table: which field carries the state, which direction of change enables which guard.
# Derived by reading the demand functions registered with each guard; cross-checked on every
# run by demand_fields() below (a demand function reading anything else makes the run exit 2).
CLASSES = {
    "cmb_resource": {"unit": "src/cmb_resource.c", "header": "include/cmb_resource.h",
                     "field": "holder", "kind": "ptr",
                     "guards": {"guard": "null"}},
    "cmb_resourcepool": {"unit": "src/cmb_resourcepool.c", "header": "include/cmb_resourcepool.h",
                         "field": "in_use", "kind": "ctr",
                         "guards": {"guard": "down"}},
    "cmb_buffer": {"unit": "src/cmb_buffer.c", "header": "include/cmb_buffer.h",
                   "field": "level", "kind": "ctr",
                   "guards": {"front_guard": "up", "rear_guard": "down"}},
    "cmb_objectqueue": {"unit": "src/cmb_objectqueue.c", "header": "include/cmb_objectqueue.h",
                        "field": "length", "kind": "ctr", "also": ["queue_head"],
                        "guards": {"front_guard": "up", "rear_guard": "down"}},
    "cmb_priorityqueue": {"unit": "src/cmb_priorityqueue.c", "header": "include/cmb_priorityqueue.h",
                          "field": "queue", "kind": "heap",
                          "guards": {"front_guard": "up", "rear_guard": "down"}},
}
HEAP_UP = {"cmi_hashheap_enqueue"}
HEAP_DOWN = {"cmi_hashheap_dequeue", "cmi_hashheap_remove", "cmi_hashheap_cancel", "cmi_hashheap_clear",
             "cmi_hashheap_pattern_cancel"}
LIFECYCLE = re.compile(r"_(initialize|terminate|create|destroy|reset)$")


class Finding:
    def __init__(self, rule, cls, func, construct, msg, where, path):
        self.rule, self.cls, self.func, self.construct, self.msg, self.where, self.path = \
            rule, cls, func, construct, msg, where, path


class ResourceDomain(Domain):
    def __init__(self, model, cls, info, root, may_yield, may_write, results):
        self.m = model
        self.cls = cls
        self.info = info
        self.root = root
        self.may_yield = may_yield
        self.may_write = may_write
        self.res = results
        self.lifecycle = bool(LIFECYCLE.search(root.name))

    # -- helpers --------------------------------------------------------
    def _obj_of(self, lc, field):
        suf = "->" + field
        if lc.endswith(suf):
            return lc[:-len(suf)]
        suf = "." + field
        if lc.endswith(suf):
            return "&" + lc[:-len(suf)] if False else lc[:-len(suf)]
        return None

    def inline(self, flow, callee, call):
        if callee is None:
            return False
        if callee.key in self.may_yield:
            return False
        if callee.static and not callee.in_header:
            return True
        # header inlines: only the trivial ones matter and canon() expands those
        return False

    def _event(self, flow, s, obj, direction, node, what):
        """State of `obj` changed in `direction` ('up','down','null','nonnull','unk')."""
        s._k = None
        for g, d in self.info["guards"].items():
            if direction == "unk" or d == direction:
                s.d[("sig", obj, g)] = what
            elif self.info["kind"] == "ptr" and direction == "nonnull":
                s.d.pop(("sig", obj, g), None)        # availability withdrawn again
        self.res["events"].append((self.root.name, obj, direction, what))

    def store(self, flow, s, lc, lhs, value, rhs, op, node):
        l = strip(lhs, casts=True)
        if l["kind"] != "MemberExpr":
            return [s]
        rec = inv.member_record(l)
        fld = l.get("name")
        if fld == "is_recording" and rec == self.cls:
            obj = self._obj_of(lc, fld)
            s._k = None
            s.d.pop(("norec", obj), None)
            return [s]
        if rec != self.cls:
            return [s]
        if fld in self.info.get("also", ()):
            s._k = None
            if value == "NULL":
                s.d[("nul", lc)] = "N"
            else:
                s.d.pop(("nul", lc), None)
            return [s]
        if fld != self.info["field"] or self.info["kind"] == "heap":
            return [s]
        obj = self._obj_of(lc, fld)
        where = self.m.rel(loc(node))
        s._k = None
        if self.info["kind"] == "ptr":
            cur = s.d.get(("nul", lc), "U")
            if ("sync", obj) not in s.d:
                s.d[("sync", obj)] = cur
            if value == "NULL" and op == "=":
                new = "N"
                self._event(flow, s, obj, "null", node, "%s set to NULL" % lc)
            else:
                new = "NN"
                # R-C05-1: install only over a NULL established in this atomic region
                self.res["installs"].append((self.root.name, flow.cur_func().name, lc, cur, where))
                if cur != "N" and not self.lifecycle:
                    self.res["findings"].append(Finding(
                        "R-C05-1", self.cls, self.root.name, "install:%s:%s" % (flow.cur_func().name, _ctx(flow)),
                        "%s = %s installs a holder while the slot is not known free in this atomic region "
                        "(state of %s: %s); a check made before a yield does not count"
                        % (lc, value, lc, {"U": "unknown", "NN": "occupied"}[cur]), where, _ctx(flow)))
                self._event(flow, s, obj, "nonnull", node, "%s set" % lc)
            s.d[("nul", lc)] = new
            sync = s.d[("sync", obj)]
            if new != sync or sync == "U":
                s.d[("dirty", obj)] = "%s changed at %s" % (lc, where)
            else:
                s.d.pop(("dirty", obj), None)
            return [s]
        # counter
        if op in ("+=",) or (op == "+=" and value):
            d = "up"
        elif op == "-=":
            d = "down"
        elif op == "=":
            d = "unk"
            if value == "0":
                d = "down"
            elif re.fullmatch(re.escape(obj) + r"->capacity", value or ""):
                d = "up"
        else:
            d = "unk"
        s.d[("dirty", obj)] = "%s %s at %s" % (lc, op, where)
        self._event(flow, s, obj, d, node, "%s %s %s at %s" % (lc, op, value, where))
        return [s]

    def call(self, flow, s, call, name, args):
        s = s.copy()
        where = self.m.rel(loc(call))
        if name == "cmi_assert_failed" or name in ("abort", "exit"):
            return []
        if name == "cmb_resourceguard_signal" and args:
            mm = re.fullmatch(r"&(.+)->(\w+)", args[0])
            if mm:
                s.d.pop(("sig", mm.group(1), mm.group(2)), None)
                s._k = None
            return [s]
        if name == "cmb_timeseries_add" and args:
            mm = re.fullmatch(r"&(.+)->history", args[0])
            if mm:
                obj = mm.group(1)
                self.res["samples"].append((self.root.name, obj, args[1] if len(args) > 1 else "?", where))
                s.d.pop(("dirty", obj), None)
                if self.info["kind"] == "ptr":
                    s.d[("sync", obj)] = s.d.get(("nul", "%s->%s" % (obj, self.info["field"])), "U")
                s._k = None
            return [s]
        if self.info["kind"] == "heap" and name in HEAP_UP | HEAP_DOWN and args:
            mm = re.fullmatch(r"&(.+)->%s" % self.info["field"], args[0])
            if mm:
                obj = mm.group(1)
                out = []
                if name in ("cmi_hashheap_remove", "cmi_hashheap_cancel"):
                    # returns whether an entry was removed: split on the outcome
                    s0 = s.copy()
                    s0.d[("ret", flow.canon(s, call))] = False
                    s0._k = None
                    out.append(s0)
                    s.d[("ret", flow.canon(s, call))] = True
                s.d[("dirty", obj)] = "%s at %s" % (name, where)
                self._event(flow, s, obj, "up" if name in HEAP_UP else "down", call,
                            "%s(%s) at %s" % (name, args[0], where))
                return out + [s]
            return [s]
        key = self.m.resolve(flow.cur_unit(), name) if name else None
        if name is None:
            # indirect call: yields if any type-compatible target may yield
            tg = set()
            for n2, sig, targets in self.m.indirect_sites.get(flow.cur_func().key, []):
                if n2 is call:
                    tg = targets
            yields = any(t in self.may_yield for t in tg)
            writes = any(self.cls in self.may_write.get(t, ()) for t in tg)
        else:
            yields = key in self.may_yield
            writes = self.cls in self.may_write.get(key, ())
        if yields:
            self.region_end(flow, s, call, "call of %s, which may yield" % (name or "a function pointer"))
            self._forget_memory(s)
            flow.age_env(s, "L%s" % call.get("line"))
        elif writes:
            # an opaque callee that may write this class's state field: our facts about it are stale
            for k in [k for k in s.d if k[0] in ("nul",) and ("->" + self.info["field"]) in k[1]]:
                del s.d[k]
            s._k = None
        return [s]

    def _forget_memory(self, s):
        for k in [k for k in s.d if k[0] in ("nul", "sync", "norec", "dirty", "sig")]:
            del s.d[k]
        s._k = None

    def assume(self, flow, s, cond, truth):
        c = strip(cond, casts=True)
        k = c["kind"]
        tgt, isnull = None, None
        rk = ("ret", flow.canon(s, c))
        if rk in s.d:
            return [s] if s.d[rk] == truth else []
        if k == "BinaryOperator" and c.get("opcode") in ("==", "!="):
            # found == true / false
            from ..astutil import int_value
            a, b = kids(c)
            bv = int_value(b)
            rk = ("ret", flow.canon(s, a))
            if rk in s.d and bv in (0, 1):
                val = s.d[rk] == bool(bv)
                if c["opcode"] == "!=":
                    val = not val
                return [s] if val == truth else []
        if k == "BinaryOperator" and c.get("opcode") in ("==", "!="):
            a, b = kids(c)
            if is_null_expr(b) or flow.canon(s, b) == "NULL":
                tgt = flow.canon(s, a)
            elif is_null_expr(a) or flow.canon(s, a) == "NULL":
                tgt = flow.canon(s, b)
            if tgt is not None:
                isnull = (c["opcode"] == "==") == truth
        elif k in ("MemberExpr", "DeclRefExpr") and "*" in (c.get("type") or ""):
            tgt = flow.canon(s, c)
            isnull = not truth
        elif k == "MemberExpr" and c.get("name") == "is_recording" and inv.member_record(c) == self.cls:
            obj = self._obj_of(flow.canon(s, c), "is_recording")
            s = s.copy()
            if truth:
                s.d.pop(("norec", obj), None)
            else:
                s.d[("norec", obj)] = True
            s._k = None
            return [s]
        if tgt is None or tgt == "NULL":
            return [s]
        have = s.d.get(("nul", tgt))
        want = "N" if isnull else "NN"
        if have is not None and have != want:
            return []                      # infeasible
        s = s.copy()
        s.d[("nul", tgt)] = want
        s._k = None
        return [s]

    def region_end(self, flow, s, node, why):
        if self.lifecycle:
            return
        where = self.m.rel(loc(node)) if node is not None else self.m.rel(self.root.where)
        self.res["region_ends"].append((self.root.name, why, where))
        for k, v in list(s.d.items()):
            if k[0] == "sig":
                self.res["findings"].append(Finding(
                    "R-C08-1", self.cls, self.root.name, "no-signal:%s" % k[2],
                    "atomic region ends (%s) with %s of %s not signalled after %s: a waiter whose demand became "
                    "satisfiable stays blocked" % (why, k[2], k[1], v), where, v))
            if k[0] == "dirty" and not s.d.get(("norec", k[1])):
                self.res["findings"].append(Finding(
                    "R-C14-1", self.cls, self.root.name, "no-sample",
                    "atomic region ends (%s) without a history sample after %s: the recorded trajectory "
                    "misses this change" % (why, v), where, v))

    def at_return(self, flow, s, node, value):
        self.region_end(flow, s, node, "return")


def _ctx(flow):
    return ">".join(f.name for f in flow.stack)


# ----------------------------------------------------------------------
def compute_may_write(m):
    """function key -> set of class names whose state field it may write (transitively)."""
    direct = defaultdict(set)
    for f in m.funcs.values():
        for lhs, rhs, kind, node in inv.stores(f):
            l = strip(lhs, casts=True)
            if l["kind"] == "MemberExpr":
                rec = inv.member_record(l)
                if rec in CLASSES and l.get("name") == CLASSES[rec]["field"]:
                    direct[f.key].add(rec)
        for n in walk(f.body):
            if n["kind"] == "CallExpr" and callee_ref(n) in HEAP_UP | HEAP_DOWN:
                a = render(kids(n)[1])
                if a.endswith("->queue") or a.endswith("->queue)"):
                    direct[f.key].add("cmb_priorityqueue")
    cg = m.callgraph()
    mw = {k: set(v) for k, v in direct.items()}
    changed = True
    while changed:
        changed = False
        for f, cs in cg.items():
            cur = mw.setdefault(f, set())
            for c in cs:
                add = mw.get(c, set()) - cur
                if add:
                    cur |= add
                    changed = True
    return mw


def demand_fields(m, cls, info):
    """Cross-check the class table against the demand functions registered with each guard:
    returns {guard: (demand function, fields read)}; raises AnalysisBroken on a mismatch."""
    out = {}
    for f in m.funcs.values():
        if m.rel(f.file) not in (info["unit"], info["header"]):
            continue
        for n in walk(f.body):
            if n["kind"] == "CallExpr" and callee_ref(n) == "cmb_resourceguard_wait":
                from ..vals import FuncCtx as _FC
                g = _FC(m, f).canon(kids(n)[1])        # through single-definition locals (a cached guard address)
                mm = re.search(r"->(\w+)\)?$", g)
                gname = mm.group(1) if mm else g
                d = strip(kids(n)[2], casts=True)
                if d["kind"] != "DeclRefExpr":
                    raise AnalysisBroken("%s: demand function of %s is not a named function" % (f.name, g))
                df = m.need(m.resolve(f.unit, d["ref"]["name"]))
                fields = set()
                for x in walk(df.body):
                    if x["kind"] == "MemberExpr" and inv.member_record(x) == cls:
                        fields.add(x["name"])
                out.setdefault(gname, []).append((f.name, df.name, sorted(fields)))
                allowed = {info["field"], "capacity"} | set(info.get("also", ()))
                if gname not in info["guards"]:
                    raise AnalysisBroken("%s waits on guard '%s' that is not in the class table" % (f.name, gname))
                if not fields <= allowed:
                    raise AnalysisBroken("demand function %s reads %s of %s; the class table only knows %s"
                                         % (df.name, sorted(fields - allowed), cls, sorted(allowed)))
    return out


_CACHE = {}


def analyse(m):
    """Run the resource-class domain over every root of the five classes."""
    key = (m.raw["hash"], m.config)
    if key in _CACHE:
        return _CACHE[key]
    may_yield = m.reaches({"cmi_coroutine_transfer"})
    may_write = compute_may_write(m)
    cg = m.callgraph()
    addr_taken = set()
    for ks in m.addr_taken.values():
        addr_taken |= ks
    res = {"findings": [], "installs": [], "samples": [], "events": [], "region_ends": [], "roots": [],
           "demands": {}, "classes": {}}
    for cls, info in CLASSES.items():
        if cls not in m.records:
            raise AnalysisBroken("class %s not found" % cls)
        fl = [f for f, _, _ in m.records[cls]]
        if info["field"] not in fl:
            raise AnalysisBroken("state field %s.%s not found" % (cls, info["field"]))
        for g in info["guards"]:
            if g not in fl:
                raise AnalysisBroken("guard %s.%s not found" % (cls, g))
        res["demands"][cls] = demand_fields(m, cls, info)
        roots = []
        for f in m.funcs.values():
            rel = m.rel(f.file)
            if rel not in (info["unit"], info["header"]):
                continue
            if f.static and not f.in_header and f.key not in addr_taken:
                continue           # analysed inlined into its callers
            roots.append(f)
        res["classes"][cls] = len(roots)
        for f in sorted(roots, key=lambda x: x.key):
            dom = ResourceDomain(m, cls, info, f, may_yield, may_write, res)
            fl_ = Flow(m, f, dom)
            fl_.run()
            res["roots"].append((cls, f.name))
    # de-duplicate findings
    seen, uniq = set(), []
    for fd in res["findings"]:
        k = (fd.rule, fd.func, fd.construct)
        if k not in seen:
            seen.add(k)
            uniq.append(fd)
    res["findings"] = uniq
    _CACHE[key] = res
    return res
