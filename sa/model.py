"""Whole-program model: functions, records, globals, call graph, fn-pointer slots."""
import os
from collections import defaultdict

from . import frontend
from .astutil import kids, strip, walk, callee_ref, render, struct_name, unqual
from .frontend import AnalysisBroken


class Func:
    __slots__ = ("key", "name", "unit", "file", "line", "static", "inline", "params",
                 "body", "decl", "type", "in_header")

    def __init__(self, **kw):
        for k, v in kw.items():
            setattr(self, k, v)

    def __repr__(self):
        return "<Func %s>" % self.key

    @property
    def where(self):
        return "%s:%s" % (self.file, self.line)


class Global:
    __slots__ = ("key", "name", "unit", "file", "line", "type", "tls", "static", "const",
                 "local_to", "node", "extern_only")

    def __init__(self, **kw):
        for k, v in kw.items():
            setattr(self, k, v)


class Model:
    def __init__(self, raw):
        self.raw = raw
        self.repo = raw["repo"]
        self.config = raw["config"]
        self.units = raw["units"]          # path -> [decls]
        self.asm = raw["asm"]
        self.funcs = {}                     # key -> Func (definitions)
        self.decls = defaultdict(list)      # name -> [(unit, declnode)] all prototypes+defs
        self.records = {}                   # name -> [(fieldname, type, node)]
        self.record_nodes = {}
        self.enums = {}                     # enum name -> [enumerators]
        self.enumerators = {}               # enumerator name -> value index
        self.typedefs = {}
        self.globals = {}                   # key -> Global
        self.static_names = defaultdict(set)  # unit -> names of static functions in .c
        self._build()

    # ------------------------------------------------------------------
    def rel(self, path):
        if path and path.startswith(self.repo + "/"):
            return path[len(self.repo) + 1:]
        gd = self.raw.get("gendir")
        if path and gd and path.startswith(gd + "/"):
            return "<generated>/" + path[len(gd) + 1:]
        return path

    def _build(self):
        for unit, decls in self.units.items():
            for d in decls:
                k = d["kind"]
                if k == "FunctionDecl":
                    self._add_function(unit, d)
                elif k == "RecordDecl":
                    self._add_record(d)
                elif k == "EnumDecl":
                    self._add_enum(d)
                elif k == "VarDecl":
                    self._add_global(unit, d, None)
                elif k == "TypedefDecl":
                    self.typedefs[d.get("name")] = d.get("type")
        # static locals
        for f in list(self.funcs.values()):
            for n in walk(f.body):
                if n["kind"] == "VarDecl" and n.get("storageClass") == "static":
                    self._add_global(f.unit, n, f)
                elif n["kind"] == "RecordDecl":
                    self._add_record(n)
        self._callgraph = None
        from . import normalize
        self.norm_notes = normalize.normalize(self) if os.environ.get("VERIF_NO_NORMALIZE") != "1" else []

    def _fkey(self, unit, name, static, in_header):
        if static and not in_header:
            return "%s@%s" % (name, os.path.basename(unit))
        return name

    def _add_function(self, unit, d):
        name = d.get("name")
        self.decls[name].append((unit, d))
        body = None
        params = []
        for c in kids(d):
            if c["kind"] == "CompoundStmt":
                body = c
            elif c["kind"] == "ParmVarDecl":
                params.append(c)
        static = d.get("storageClass") == "static"
        in_header = (d.get("file") or "").endswith(".h")
        if static and not in_header:
            self.static_names[unit].add(name)
        if body is None:
            return
        key = self._fkey(unit, name, static, in_header)
        if key in self.funcs:
            old = self.funcs[key]
            if (old.file, old.line) != (d.get("file"), d.get("line")):
                raise AnalysisBroken("two definitions of %s: %s and %s:%s"
                                     % (key, old.where, d.get("file"), d.get("line")))
            return
        self.funcs[key] = Func(key=key, name=name, unit=unit, file=d.get("file"), line=d.get("line"),
                               static=static, inline=bool(d.get("inline")), params=params,
                               body=body, decl=d, type=d.get("type"), in_header=in_header)

    def _add_record(self, d):
        name = d.get("name")
        if not name or not d.get("completeDefinition"):
            return
        fields = [(c.get("name"), c.get("type"), c) for c in kids(d) if c["kind"] == "FieldDecl"]
        if name in self.records:
            return
        self.records[name] = fields
        self.record_nodes[name] = d
        for c in kids(d):
            if c["kind"] == "RecordDecl":
                self._add_record(c)

    def first_word_members(self, sname):
        """names of the members of struct `sname` that start at offset 0 (the first field; for an anonymous union in
        first place every member of it; for an anonymous struct its first field)"""
        d = self.record_nodes.get(sname)
        if d is None:
            return set()
        prev = None
        for c in kids(d):
            if c["kind"] == "RecordDecl":
                prev = c
                continue
            if c["kind"] != "FieldDecl":
                continue
            if c.get("name"):
                return {c["name"]}
            if prev is not None:
                fl = [x for x in kids(prev) if x["kind"] == "FieldDecl" and x.get("name")]
                if prev.get("tagUsed") == "union":
                    return {x["name"] for x in fl}
                return {fl[0]["name"]} if fl else set()
            return set()
        return set()

    def _add_enum(self, d):
        names = [c.get("name") for c in kids(d) if c["kind"] == "EnumConstantDecl"]
        if d.get("name"):
            self.enums.setdefault(d["name"], names)
        val = -1
        for c in kids(d):
            if c["kind"] != "EnumConstantDecl":
                continue
            v = None
            for x in walk(c):
                if x["kind"] == "ConstantExpr" and "value" in x:
                    try:
                        v = int(x["value"])
                    except ValueError:
                        v = None
                    break
                if x["kind"] == "IntegerLiteral":
                    v = int(x["value"])
                    break
            val = v if v is not None else val + 1
            self.enumerators.setdefault(c.get("name"), val)

    def _add_global(self, unit, d, func):
        name = d.get("name")
        sc = d.get("storageClass")
        static = sc == "static"
        in_header = (d.get("file") or "").endswith(".h")
        if func is not None:
            key = "%s::%s" % (func.key, name)
        elif static and not in_header:
            key = "%s@%s" % (name, os.path.basename(unit))
        else:
            key = name
        t = d.get("type") or ""
        is_def = sc != "extern"
        g = self.globals.get(key)
        if g is not None and (not g.extern_only or not is_def):
            return
        self.globals[key] = Global(key=key, name=name, unit=unit, file=d.get("file"), line=d.get("line"),
                                   type=t, tls=bool(d.get("tls")), static=static,
                                   const=_is_const(t),
                                   local_to=func.key if func else None, node=d, extern_only=not is_def)

    # ------------------------------------------------------------------
    def array_fields(self):
        """names of pointer members that are used as arrays of records somewhere in the library (subscripted, and the
        element is a struct): `q->F->g` is `q->F[0].g` for these"""
        af = getattr(self, "_array_fields", None)
        if af is None:
            af = set()
            for f in self.funcs.values():
                for n in walk(f.body):
                    if n["kind"] == "ArraySubscriptExpr" and (n.get("type") or "").replace("const ", "").startswith("struct "):
                        b = strip(kids(n)[0], casts=True)
                        if b["kind"] == "MemberExpr" and b.get("name"):
                            af.add(b["name"])
            self._array_fields = af
        return af

    def resolve(self, unit, name):
        """Function key for a function named `name` referenced from `unit`."""
        if name in self.static_names.get(unit, ()):
            return "%s@%s" % (name, os.path.basename(unit))
        return name

    def func(self, key):
        return self.funcs.get(key)

    def func_named(self, name):
        """All defined functions with this source name."""
        return [f for f in self.funcs.values() if f.name == name]

    def need(self, key):
        f = self.funcs.get(key)
        if f is None:
            cands = self.func_named(key)
            if len(cands) == 1:
                return cands[0]
            raise AnalysisBroken("anchor function not found: %s" % key)
        return f

    def global_key(self, unit, func, ref):
        """Key of the global a DeclRefExpr (ref dict) denotes, or None if local."""
        name = ref.get("name")
        if func is not None:
            k = "%s::%s" % (func.key, name)
            if k in self.globals and self.globals[k].node.get("id") == ref.get("id"):
                return k
        k = "%s@%s" % (name, os.path.basename(unit))
        if k in self.globals:
            return k
        if name in self.globals:
            return name
        return None

    # ------------------------------------------------------------------
    # call graph
    def direct_callees(self, f):
        out = []
        for n in walk(f.body):
            if n["kind"] == "CallExpr":
                nm = callee_ref(n)
                if nm is not None:
                    out.append((self.resolve(f.unit, nm), n))
        return out

    def fn_refs(self, f):
        """Functions whose address is taken (not called) in f: [(key, node)]."""
        called_ids = set()
        for n in walk(f.body):
            if n["kind"] == "CallExpr":
                c = strip(kids(n)[0], casts=True)
                if c["kind"] == "UnaryOperator":
                    c = strip(kids(c)[0], casts=True)
                called_ids.add(id(c))
        out = []
        for n in walk(f.body):
            if n["kind"] == "DeclRefExpr" and n.get("ref", {}).get("kind") == "FunctionDecl" \
                    and id(n) not in called_ids:
                out.append((self.resolve(f.unit, n["ref"]["name"]), n))
        return out

    def callgraph(self):
        """key -> set of callee keys; indirect calls resolved by type-compatible
        address-taken functions (sound over-approximation for this code base)."""
        if self._callgraph is not None:
            return self._callgraph
        addr_taken = defaultdict(set)   # fn type (unqualified) -> keys
        for f in self.funcs.values():
            for k, n in self.fn_refs(f):
                t = n.get("ref", {}).get("type") or n.get("type")
                addr_taken[_sig(t)].add(k)
        # also global initialisers
        for g in self.globals.values():
            for n in walk(g.node):
                if n["kind"] == "DeclRefExpr" and n.get("ref", {}).get("kind") == "FunctionDecl":
                    addr_taken[_sig(n["ref"].get("type"))].add(self.resolve(g.unit, n["ref"]["name"]))
        self.addr_taken = addr_taken
        cg = {}
        self.indirect_sites = defaultdict(list)
        for f in self.funcs.values():
            s = set()
            for n in walk(f.body):
                if n["kind"] != "CallExpr":
                    continue
                nm = callee_ref(n)
                if nm is not None:
                    s.add(self.resolve(f.unit, nm))
                else:
                    ct = kids(n)[0].get("type")
                    sig = _sig(ct)
                    tg = addr_taken.get(sig, set())
                    self.indirect_sites[f.key].append((n, sig, tg))
                    s |= tg
            cg[f.key] = s
        self._callgraph = cg
        return cg

    def reaches(self, targets, direct_only=False):
        """Set of function keys from which some function in `targets` is reachable."""
        cg = self.callgraph()
        rev = defaultdict(set)
        for a, bs in cg.items():
            for b in bs:
                rev[b].add(a)
        seen = set(targets)
        work = list(targets)
        while work:
            x = work.pop()
            for p in rev.get(x, ()):
                if p not in seen:
                    seen.add(p)
                    work.append(p)
        return seen

    def reachable_from(self, roots):
        cg = self.callgraph()
        seen = set(roots)
        work = list(roots)
        while work:
            x = work.pop()
            for c in cg.get(x, ()):
                if c not in seen:
                    seen.add(c)
                    work.append(c)
        return seen

    # ------------------------------------------------------------------
    def first_member_chain(self, sname):
        """['cmb_resource','cmi_holdable','cmi_resourcebase'] following first members of struct type."""
        chain = [sname]
        cur = sname
        while True:
            fl = self.records.get(cur)
            if not fl:
                break
            t = fl[0][1]
            nxt = struct_name(t)
            if not nxt or nxt in chain:
                break
            chain.append(nxt)
            cur = nxt
        return chain


def _is_const(t):
    t = (t or "").strip()
    if "(*" in t:
        return "(*const" in t or "(* const" in t
    if "*" in t:
        return "const" in t.rsplit("*", 1)[1]
    return t.startswith("const ") or " const" in t


def _sig(t):
    """Normalise a function (pointer) type string to a signature key."""
    if t is None:
        return None
    t = t.replace("(*)", "").replace("(*const)", "").replace("(* const)", "")
    import re
    t = re.sub(r"\b(const|volatile|restrict)\b", "", t)
    return re.sub(r"\s+", "", t)


def load(repo=None, config="release", use_cache=True, extra_units=()):
    raw = frontend.build(repo, config, use_cache, extra_units)
    return Model(raw)
